// C16, read side, sub-check "chunkflag" (L2): the per-chunk detach flag of the row reader's
// columnChunkValueReader against its mirror PqModel.PoolMixed.chunkProgs / flagTrace.
//
// On the files of the "mixed" sub-check (column chunks mixing dictionary pages and PLAIN fallback
// pages, c16MFile) a spy (verif hook VerifSpyRowGroupRows) sits between every column reader of the
// real rowGroupRows and its Pages. Per chunk and history of ReadRows / SeekToRow / Close it gives, for
// every page the reader fetched: r.detach after the fetch, whether the page had a dictionary, what the
// reader did with its reference on the page's values buffer when it let go of the page (Release or
// releaseAndDetachValues: reference count after Close minus the spy's own reference), and the address
// range of that buffer. The harness counts, per page, the non-empty values of rows it still holds
// after the reader let go of the page (nKept) and how many of them point INTO the page's values buffer.
// The mirror is asked `chunkflag.run` with the chunk as the spy saw it (hasDict, reads, nKept per page)
// and must answer the same flag trace, the same release decision per buffer, the same number of
// touches of the buffer through kept rows (PageD.keptTouches) and a discipline verdict that agrees
// with what happened (a buffer the reader released while a kept value points into it).
package props

import (
	"bytes"
	"fmt"
	"math/rand"
	"strings"
	"sync"
	"unsafe"

	"github.com/parquet-go/parquet-go"

	"verifharness/core"
)

func init() {
	RegisterSub("C16", "chunkflag", RunC16ChunkFlag)
}

const c16ChunkFlagRule = "one case = one column chunk of a file of the mixed sub-check (10-column struct, 600..8192 rows, DictionaryMaxBytes 64..65536 x PageBufferSize 256..16384 x page version x codec x row groups) read by the real rowGroupRows of RowGroup.Rows() through a history of ReadRows batches (1 row .. whole group) and SeekToRow, then Close, with the spy hook recording every page the chunk's reader fetched; compared with the mirror page by page: detach flag after the fetch, Release-vs-detach decision on the values buffer (reference count after Close), number of kept values pointing into the page's values buffer, discipline verdict; non-trivial = the reader fetched >= 2 pages of the chunk and the caller held values of at least one page after the reader had let go of it (byte-carrying columns; the INT64 column: >= 2 pages)"

func RunC16ChunkFlag(ctx *core.Ctx) {
	ctx.SetRule(c16ChunkFlagRule)
	c16RunIsolated(ctx, "chunkflag", "L2", c16ChunkFlagInProcess)
}

func c16ChunkFlagInProcess(ctx *core.Ctx) {
	ctx.SetRule(c16ChunkFlagRule)
	nfiles := ctx.Scale(3, 14)
	var wg sync.WaitGroup
	for wkr := 0; wkr < 16; wkr++ {
		wg.Add(1)
		go func(wkr int) {
			defer wg.Done()
			d := ctx.Driver()
			if d == nil {
				return
			}
			defer d.Close()
			r := ctx.Rand(fmt.Sprintf("c16/chunkflag/%d", wkr))
			for k := 0; k < nfiles; k++ {
				c16ChunkFlagFile(ctx, d, r, wkr, k)
			}
		}(wkr)
	}
	wg.Wait()
}

// one page of one chunk as the spy and the harness saw it
type c16CFPage struct {
	ev       int // index of the 'F' event in the column's event list
	epoch    int // number of seeks before the fetch
	first, n int // rows [first, first+n) of the row group
	hasDict  bool
	reads    int // ReadRows calls that returned rows of the page
	kept     int // non-empty values of rows held after the reader let go of the page
	keptIn   int // ... of which point into the page's values buffer
	heldIn   int // values handed over while the reader still held the page that point into the buffer
	lo, hi   uintptr
	buffered bool
	bufID    uint64
}

type c16CFChunk struct {
	pages   []c16CFPage
	seen    int // events processed
	epoch   int
	nextRow int
}

func (c *c16CFChunk) absorb(evs []parquet.VerifChunkEvent) {
	for ; c.seen < len(evs); c.seen++ {
		e := evs[c.seen]
		switch e.Kind {
		case 'S':
			c.epoch++
			c.nextRow = int(e.Row)
		case 'F':
			c.pages = append(c.pages, c16CFPage{ev: c.seen, epoch: c.epoch, first: c.nextRow, n: int(e.NumRows), hasDict: e.HasDict,
				lo: e.Lo, hi: e.Hi, buffered: e.Buffered, bufID: e.BufID})
			c.nextRow += int(e.NumRows)
		}
	}
}

func c16ChunkFlagFile(ctx *core.Ctx, d interface {
	AskMany([]string) ([]string, error)
}, r *rand.Rand, wkr, k int) {
	p := &c16MParams{}
	shapes := [][2]int{{600, 256}, {600, 1024}, {2500, 1024}, {2500, 4096}, {8192, 4096}, {8192, 8192}, {8192, 16384}, {5000, 8192}}
	sh := shapes[(wkr+k)%len(shapes)]
	p.n, p.pageBuf = sh[0], sh[1]
	for c := range p.mode {
		p.mode[c] = []int{0, 0, 1, 1, 2}[r.Intn(5)]
	}
	p.dictMax = []int64{64, 1024, 4096, 4096, 65536}[r.Intn(5)]
	p.version = 1 + r.Intn(2)
	p.codec = []string{"none", "none", "snappy", "zstd", "gzip", "lz4"}[r.Intn(6)]
	if r.Intn(3) == 0 {
		p.maxRows = int64(p.n/2 + 1 + r.Intn(p.n/4))
	}
	p.writeLen = []int{64, 1000, p.n}[r.Intn(3)]
	var ops []string
	defer c16Recover(ctx, "chunkflag history", func(m map[string]any) map[string]any {
		m["file"], m["history"] = p.String(), ops
		return m
	})
	fi, err := c16MFile(p)
	if err != nil {
		ctx.Fail("L2", "chunkflag:cannot-write-file", "the file of the chunkflag histories could not be written or re-opened: "+err.Error(), map[string]any{"file": p.String()})
		return
	}
	f, err := parquet.OpenFile(bytes.NewReader(fi.file), int64(len(fi.file)))
	if err != nil {
		return
	}
	for g, rg := range f.RowGroups() {
		for h := 0; h < 3; h++ {
			ops = ops[:0]
			c16ChunkFlagHistory(ctx, d, r, p, g, rg, h, &ops)
		}
	}
}

func c16ChunkFlagHistory(ctx *core.Ctx, d interface {
	AskMany([]string) ([]string, error)
}, r *rand.Rand, p *c16MParams, g int, rg parquet.RowGroup, style int, ops *[]string) {
	op := func(format string, a ...any) { *ops = append(*ops, fmt.Sprintf(format, a...)) }
	detail := func(extra map[string]any) map[string]any {
		extra["file"], extra["row_group"], extra["history"] = p.String(), g, append([]string(nil), *ops...)
		return extra
	}
	rows := rg.Rows()
	spy, ok := parquet.VerifSpyRowGroupRows(rows)
	if !ok {
		rows.Close()
		ctx.Fail("L2", "chunkflag:not-a-rowGroupRows", fmt.Sprintf("RowGroup.Rows() of a file row group is a %T, not the row reader the mirror describes", rows), detail(map[string]any{}))
		return
	}
	defer spy.Done()
	nrows := int(rg.NumRows())
	ncol := len(c16MFields)
	flags0 := spy.Flags()
	chunks := make([]c16CFChunk, ncol)
	isBA := func(c int) bool { return c16MPhys[c] == "BYTE_ARRAY" || c16MPhys[c] == "FIXED_LEN_BYTE_ARRAY" }

	var sizes []int
	switch style {
	case 0: // a few big batches: many pages let go inside one call
		sizes = []int{5000, nrows, 500}
	case 1:
		sizes = []int{1, 10, 64, 500, 700}
	default:
		sizes = []int{1, 3, 10, 64, 500, 700, 3000, nrows}
	}
	pos := 0
	steps := 4 + r.Intn(8)
	for i := 0; i < steps; i++ {
		if r.Intn(6) == 0 {
			pos = r.Intn(nrows)
			if err := rows.SeekToRow(int64(pos)); err != nil {
				op("SeekToRow(%d)=%v", pos, err)
				break
			}
			op("SeekToRow(%d)", pos)
			continue
		}
		bl := sizes[r.Intn(len(sizes))]
		batch := make([]parquet.Row, bl)
		got, err := rows.ReadRows(batch)
		op("ReadRows(%d)=%d", bl, got)
		ctx.Hist("chunkflag-batch", c16Bucket(got))
		holding := spy.Holding()
		for c := 0; c < ncol; c++ {
			chunks[c].absorb(spy.Events(c))
		}
		// what the caller holds now: attribute every value to the page of its row
		cur := make([]int, ncol) // per column: page index of the row being looked at
		for c := range cur {
			cur[c] = -1
			ch := &chunks[c]
			for j := len(ch.pages) - 1; j >= 0 && ch.pages[j].epoch == ch.epoch; j-- {
				if ch.pages[j].first <= pos && pos < ch.pages[j].first+ch.pages[j].n {
					cur[c] = j
				}
			}
		}
		touched := make([]int, ncol)
		for c := range touched {
			touched[c] = -1
		}
		for i := 0; i < got; i++ {
			row := pos + i
			for c := 0; c < ncol; c++ {
				ch := &chunks[c]
				for cur[c] >= 0 && cur[c] < len(ch.pages) && row >= ch.pages[cur[c]].first+ch.pages[cur[c]].n {
					cur[c]++
				}
				if cur[c] >= 0 && cur[c] < len(ch.pages) && touched[c] != cur[c] {
					ch.pages[cur[c]].reads++
					touched[c] = cur[c]
				}
			}
			for _, v := range batch[i] {
				c := v.Column()
				if c < 0 || c >= ncol || !isBA(c) || v.IsNull() {
					continue
				}
				b := v.ByteArray()
				if len(b) == 0 {
					continue
				}
				ch := &chunks[c]
				if cur[c] < 0 || cur[c] >= len(ch.pages) {
					ctx.Fail("L2", "chunkflag:row-outside-fetched-pages", "a row returned by ReadRows lies in none of the pages the spy saw the column's reader fetch (harness attribution)", detail(map[string]any{"column": c16MFields[c], "row": row}))
					return
				}
				pg := &ch.pages[cur[c]]
				ptr := uintptr(unsafe.Pointer(unsafe.SliceData(b)))
				in := pg.lo != 0 && pg.lo <= ptr && ptr < pg.hi
				letGo := cur[c] < len(ch.pages)-1 || !holding[c]
				if letGo {
					pg.kept++
					if in {
						pg.keptIn++
					}
				} else if in {
					pg.heldIn++
				}
			}
		}
		pos += got
		if err != nil {
			break
		}
	}
	rows.Close()
	op("Close")
	flagsEnd := spy.Flags()
	var reqs []string
	type chunkObs struct {
		evs   []parquet.VerifChunkEvent
		canon string
	}
	obs := make([]chunkObs, ncol)
	for c := 0; c < ncol; c++ {
		evs := spy.Events(c)
		chunks[c].absorb(evs)
		obs[c].evs = evs
		var sb strings.Builder
		for j, pg := range chunks[c].pages {
			if j > 0 {
				sb.WriteByte(',')
			}
			hd := 0
			if pg.hasDict {
				hd = 1
			}
			fmt.Fprintf(&sb, "%d:%d:%d", hd, pg.reads, pg.kept)
		}
		pages := sb.String()
		if pages == "" {
			pages = "-"
		}
		ba, fl := 0, 0
		if isBA(c) {
			ba = 1
		}
		if c16MPhys[c] == "FIXED_LEN_BYTE_ARRAY" {
			fl = 1
		}
		obs[c].canon = fmt.Sprintf("chunkflag.run 0 %d %d %d %s", ba, fl, ba, pages)
		reqs = append(reqs, obs[c].canon)
	}
	answers, err := d.AskMany(reqs)
	if err != nil || len(answers) != ncol {
		ctx.Fail("L2", "chunkflag:driver", "the driver did not answer the chunkflag requests: "+fmt.Sprint(err), detail(map[string]any{}))
		return
	}
	for c := 0; c < ncol; c++ {
		ch := &chunks[c]
		phys := c16MPhys[c]
		dtl := func(extra map[string]any) map[string]any {
			extra["column"], extra["physical_type"], extra["request"], extra["answer"] = c16MFields[c], phys, reqs[c], answers[c]
			return detail(extra)
		}
		if flags0[c] != isBA(c) {
			ctx.Fail("L2", "chunkflag:initial-flag:"+phys, fmt.Sprintf("the detach flag newRowGroupRows set for a %s column is %v, the mirror starts byte-carrying columns (and only those) with the flag up", phys, flags0[c]), dtl(map[string]any{}))
			continue
		}
		if !strings.HasPrefix(answers[c], "ok ") {
			ctx.Fail("L2", "chunkflag:driver", "the mirror rejected the request: "+answers[c], dtl(map[string]any{}))
			continue
		}
		var mir []string
		if a := answers[c][3:]; a != "-" {
			mir = strings.Split(a, ",")
		}
		if len(mir) != len(ch.pages) {
			ctx.Fail("L2", "chunkflag:driver", "the mirror answered for a different number of pages", dtl(map[string]any{}))
			continue
		}
		type grp struct {
			want, n int
			refc    int32
			shared  int
			kept    int
			dict    bool
		}
		groups := map[uint64]*grp{}
		var order []uint64
		kind := func(pg *c16CFPage) string {
			if pg.hasDict {
				return "dictionary-page"
			}
			return "plain-page"
		}
		bad := false
		anyKept := false
		for j := range ch.pages {
			pg := &ch.pages[j]
			var mf, mput, muses, mkept, mdisc int
			if _, err := fmt.Sscanf(mir[j], "%d:%d:%d:%d:%d", &mf, &mput, &muses, &mkept, &mdisc); err != nil {
				ctx.Fail("L2", "chunkflag:driver", "unreadable answer of the mirror", dtl(map[string]any{}))
				bad = true
				break
			}
			// the flag after the fetch: as the next call on the column's pages saw it
			after := flagsEnd[c]
			if pg.ev+1 < len(obs[c].evs) {
				after = obs[c].evs[pg.ev+1].FlagAt
			}
			if after != (mf == 1) {
				ctx.Fail("L2", "chunkflag:flag-after-fetch:"+phys+":"+kind(pg), fmt.Sprintf("after fetching page %d (%s) of a %s chunk the real reader's detach flag is %v, the mirror's flagAfterFetch gives %v", j, kind(pg), phys, after, mf == 1),
					dtl(map[string]any{"page": j}))
				bad = true
				break
			}
			if pg.kept > 0 {
				anyKept = true
			}
			if pg.keptIn != mkept {
				ctx.Fail("L2", "chunkflag:kept-touches:"+phys+":"+kind(pg), fmt.Sprintf("of the %d non-empty values of page %d (%s, %s) the caller held after the reader let go of the page, %d point into the page's values buffer; the mirror's keptTouches says %d", pg.kept, j, kind(pg), phys, pg.keptIn, mkept),
					dtl(map[string]any{"page": j}))
				bad = true
				break
			}
			ctx.Hist("chunkflag-page", phys+":"+kind(pg)+fmt.Sprintf(":put=%d:kept=%s", mput, c16Bucket(mkept)))
			if !pg.buffered {
				ctx.Hist("chunkflag-page", "not-a-bufferedPage")
				continue
			}
			refc, shared := spy.Refc(c, pg.ev)
			gr := groups[pg.bufID]
			if gr == nil {
				gr = &grp{refc: refc, shared: shared, dict: pg.hasDict}
				groups[pg.bufID] = gr
				order = append(order, pg.bufID)
			}
			gr.n++
			gr.want += 1 - mput
			gr.kept += pg.keptIn
			// discipline: the mirror's verdict for the page against what happened to its buffer
			if shared == 1 {
				released := refc == 0
				realDisc := !(released && pg.keptIn > 0)
				if realDisc != (mdisc == 1) {
					ctx.Fail("L2", "chunkflag:discipline:"+phys, fmt.Sprintf("page %d (%s, %s): the reader released its values buffer = %v while %d kept values point into it; the mirror's program for the page keeps the pool discipline = %v", j, kind(pg), phys, released, pg.keptIn, mdisc == 1),
						dtl(map[string]any{"page": j}))
					bad = true
					break
				}
			}
		}
		if bad {
			continue
		}
		for _, id := range order {
			gr := groups[id]
			if gr.n != gr.shared {
				// pages of another column cannot share a values buffer with this one
				ctx.Fail("L2", "chunkflag:buffer-shared-across-columns", "a values buffer is shared by pages of different column readers", dtl(map[string]any{"buffer": id}))
				continue
			}
			if int(gr.refc) != gr.want {
				what := "plain-page"
				if gr.dict {
					what = "dictionary-page"
				}
				ctx.Fail("L2", "chunkflag:release-vs-detach:"+phys+":"+what, fmt.Sprintf("after Close the values buffer %d of a %s chunk (%d fetched page(s) over it) keeps %d reference(s) the reader never dropped (releaseAndDetachValues); the mirror's programs detach %d time(s) (0 = the reader puts the buffer back itself)", id, phys, gr.n, gr.refc, gr.want),
					dtl(map[string]any{"buffer": id}))
			}
		}
		ctx.Hist("chunkflag-pages-per-chunk", c16Bucket(len(ch.pages)))
		nontrivial := len(ch.pages) >= 2 && (anyKept || !isBA(c))
		ctx.Hist("chunkflag-case", fmt.Sprintf("%s:nontrivial=%v", phys, nontrivial))
		c16Count(ctx, fmt.Sprintf("chunkflag|%s|g%d|%s|%s", p.String(), g, strings.Join(*ops, ","), reqs[c]), nontrivial)
	}
	if g == 0 && style == 0 {
		ctx.Hist("chunkflag", "ran")
	}
}
