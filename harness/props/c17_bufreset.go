package props

import (
	"fmt"
	"math/rand"
	"strings"
	"sync"

	"github.com/parquet-go/parquet-go"

	"verifharness/core"
)

// C17 "bufreset" (L2 + L1): the Lean mirror of optionalColumnBuffer / repeatedColumnBuffer WITH the
// state Reset() leaves alone (reordered flag, sortIndex, the spare reordering buffer:
// lean/PqModel/ResetBuf.lean, driver ops bufreset.opt / bufreset.rep) against the real column
// buffers of a parquet.Buffer over an int64 leaf. A history of 1..3 earlier generations
// {WriteValues calls, Swap calls, Page(), Reset — also a Swap left pending at the Reset} and a last
// generation is run on both; after EVERY call Len(), Size(), the reordered flag, sortIndex[:len] /
// the lengths of the spare buffer's arrays, and after Page() the page's values and levels are
// compared (L2). L1 (oracle written from the property, no mirror): a fresh column buffer driven
// through the calls since the last Reset must show the same Len() and the same pages. Size() of the
// optional buffer is known to differ there (it counts the stale sortIndex; theorem
// opt_size_reset_differs): reported as an observation, and the mirror predicts the exact number.
func init() { RegisterSub("C17", "bufreset", RunC17BufReset) }

const c17BufResetRule = " bufreset (L2+L1): optional (max definition level 1, 2) and repeated (max definition level 1, 2) int64 column buffers of a parquet.Buffer x 1..3 earlier generations {0..4 WriteValues calls of 0..6 rows, 0..6 Swap, Page() or not, 0..2 more Swap left pending, Reset} + a last generation {writes, swaps, Page(), sometimes a second round}: every call's observation (Len, Size, reordered, sortIndex / spare buffer lengths, page values and levels) vs the Lean mirror; Len and pages of the last generation vs a fresh buffer; non-trivial = at least one Reset after a generation that swapped rows, and a last generation with rows."

type c17brShape struct {
	name     string
	repeated bool
	maxDef   int
	node     parquet.Node
}

var c17brShapes = []c17brShape{
	{"optional-d1", false, 1, parquet.Group{"a": parquet.Optional(parquet.Leaf(parquet.Int64Type))}},
	{"optional-d2", false, 2, parquet.Group{"g": parquet.Optional(parquet.Group{"a": parquet.Optional(parquet.Leaf(parquet.Int64Type))})}},
	{"repeated-d1", true, 1, parquet.Group{"a": parquet.Repeated(parquet.Leaf(parquet.Int64Type))}},
	{"repeated-d2", true, 2, parquet.Group{"l": parquet.Repeated(parquet.Group{"x": parquet.Optional(parquet.Leaf(parquet.Int64Type))})}},
}

type c17brCase struct {
	req, real, shape string
	calls            []string
}

// one call on a real column buffer; returns the observation text in the driver's format
func c17brApply(sh *c17brShape, col parquet.ColumnBuffer, op string) (obs string, err error) {
	defer func() {
		if rec := recover(); rec != nil {
			err = fmt.Errorf("panic: %v", rec)
		}
	}()
	page := false
	f := strings.Split(op, ":")
	switch f[0] {
	case "n": // n:<d>:<k>
		var d, k int
		fmt.Sscanf(op, "n:%d:%d", &d, &k)
		vals := make([]parquet.Value, k)
		for i := range vals {
			vals[i] = parquet.NullValue().Level(0, d, 0)
		}
		if _, err := col.WriteValues(vals); err != nil {
			return "", err
		}
	case "v":
		var vals []parquet.Value
		for _, t := range strings.Split(f[1], ";") {
			var x int64
			fmt.Sscanf(t, "%d", &x)
			vals = append(vals, parquet.Int64Value(x).Level(0, sh.maxDef, 0))
		}
		if _, err := col.WriteValues(vals); err != nil {
			return "", err
		}
	case "w":
		var vals []parquet.Value
		for _, t := range strings.Split(f[1], ";") {
			c := strings.Split(t, "/")
			var r, d int
			fmt.Sscanf(c[0], "%d", &r)
			fmt.Sscanf(c[1], "%d", &d)
			if c[2] == "n" {
				vals = append(vals, parquet.NullValue().Level(r, d, 0))
			} else {
				var x int64
				fmt.Sscanf(c[2], "%d", &x)
				vals = append(vals, parquet.Int64Value(x).Level(r, d, 0))
			}
		}
		if _, err := col.WriteValues(vals); err != nil {
			return "", err
		}
	case "s":
		var i, j int
		fmt.Sscanf(op, "s:%d:%d", &i, &j)
		col.Swap(i, j)
	case "p":
		page = true
	case "r":
		col.Reset()
	}
	var pageText string
	if page {
		pg := col.Page()
		vals := make([]parquet.Value, pg.NumValues()+1)
		n, _ := pg.Values().ReadValues(vals)
		var base []int64
		var defs []int
		var lv []string
		for _, v := range vals[:n] {
			if !v.IsNull() {
				base = append(base, v.Int64())
			}
			defs = append(defs, v.DefinitionLevel())
			lv = append(lv, fmt.Sprintf("%d/%d", v.RepetitionLevel(), v.DefinitionLevel()))
		}
		if sh.repeated {
			l := "-"
			if len(lv) > 0 {
				l = strings.Join(lv, ",")
			}
			pageText = "|" + core.JoinInts(base) + "|" + l
		} else {
			pageText = "|" + core.JoinInts(base) + "|" + core.JoinInts(defs)
		}
	}
	kind, reordered, sortIndex, spare, sr, sl, sb := parquet.VerifColumnScratch(col)
	if kind == "" {
		return "", fmt.Errorf("not an optional or repeated column buffer: %T", col)
	}
	scratch := core.JoinInts(sortIndex)
	if sh.repeated {
		scratch = "n"
		if spare {
			scratch = fmt.Sprintf("%d.%d.%d", sr, sl, sb)
		}
	}
	return fmt.Sprintf("%d/%d/%s/%s", col.Len(), col.Size(), c17B01(reordered), scratch) + pageText, nil
}

// the calls of one generation; n = rows held so far in this generation
func c17brGeneration(r *rand.Rand, sh *c17brShape, last bool) (ops []string, swapped bool, rows int) {
	val := func() int64 {
		switch r.Intn(8) {
		case 0:
			return 0
		case 1:
			return -1 << 63
		case 2:
			return 1<<63 - 1
		}
		return int64(r.Intn(20) - 10)
	}
	write := func() {
		k := r.Intn(7)
		if k == 0 {
			return
		}
		if !sh.repeated {
			// runs of nulls / values, as WriteValues splits them
			for i := 0; i < k; {
				j := i + 1 + r.Intn(k-i)
				if r.Intn(3) == 0 {
					ops = append(ops, fmt.Sprintf("n:%d:%d", r.Intn(sh.maxDef), j-i))
				} else {
					vs := make([]string, j-i)
					for x := range vs {
						vs[x] = fmt.Sprint(val())
					}
					ops = append(ops, "v:"+strings.Join(vs, ";"))
				}
				i = j
			}
			rows += k
			return
		}
		for i := 0; i < k; i++ {
			var cells []string
			if r.Intn(5) == 0 {
				cells = append(cells, "0/0/n") // empty list
			} else {
				for s, ns := 0, 1+r.Intn(4); s < ns; s++ {
					rep := 1
					if s == 0 {
						rep = 0
					}
					if sh.maxDef > 1 && r.Intn(3) == 0 {
						cells = append(cells, fmt.Sprintf("%d/%d/n", rep, sh.maxDef-1))
					} else {
						cells = append(cells, fmt.Sprintf("%d/%d/%d", rep, sh.maxDef, val()))
					}
				}
			}
			ops = append(ops, "w:"+strings.Join(cells, ";"))
			rows++
		}
	}
	swaps := func(k int) {
		for ; k > 0 && rows > 0; k-- {
			ops = append(ops, fmt.Sprintf("s:%d:%d", r.Intn(rows), r.Intn(rows)))
			swapped = true
		}
	}
	for w := r.Intn(5); w > 0; w-- {
		write()
	}
	if last && rows == 0 {
		for rows == 0 {
			write()
		}
	}
	swaps(r.Intn(7))
	if last || r.Intn(3) > 0 {
		ops = append(ops, "p")
	}
	if r.Intn(3) == 0 {
		write()
		swaps(1 + r.Intn(4))
		if last || r.Intn(2) == 0 {
			ops = append(ops, "p")
		}
	}
	if !last {
		swaps(r.Intn(3)) // a Swap left pending at the Reset
		ops = append(ops, "r")
	}
	return ops, swapped, rows
}

func c17brNewColumn(sh *c17brShape) parquet.ColumnBuffer {
	return parquet.NewBuffer(parquet.NewSchema("t", sh.node)).ColumnBuffers()[0]
}

func RunC17BufReset(ctx *core.Ctx) {
	d := ctx.Driver()
	if d == nil {
		return
	}
	ctx.SetRule(c17Rule)
	ncases := ctx.Scale(1500, 20000)
	var mu sync.Mutex
	var all []c17brCase
	var wg sync.WaitGroup
	for si := range c17brShapes {
		for part := 0; part < 4; part++ {
			wg.Add(1)
			go func(sh *c17brShape, part int) {
				defer wg.Done()
				r := ctx.Rand(fmt.Sprintf("c17br/%s/%d", sh.name, part))
				var mine []c17brCase
				for k := 0; k < ncases/4; k++ {
					if c := c17brOne(ctx, sh, r); c != nil {
						mine = append(mine, *c)
					}
				}
				mu.Lock()
				all = append(all, mine...)
				mu.Unlock()
			}(&c17brShapes[si], part)
		}
	}
	wg.Wait()
	reqs := make([]string, len(all))
	for i, c := range all {
		reqs[i] = c.req
	}
	ans, err := d.AskMany(reqs)
	if err != nil {
		ctx.Fail("L2", "driver-error", err.Error(), nil)
		return
	}
	for i, a := range ans {
		c := all[i]
		if a == "ok "+c.real {
			continue
		}
		// first call whose observation differs
		ma, re := strings.Fields(strings.TrimPrefix(a, "ok ")), strings.Fields(c.real)
		at, what := -1, "answer"
		for k := 0; k < len(ma) && k < len(re); k++ {
			if ma[k] != re[k] {
				at = k
				x, y := strings.SplitN(ma[k], "|", 2), strings.SplitN(re[k], "|", 2)
				fa, fr := strings.Split(x[0], "/"), strings.Split(y[0], "/")
				switch {
				case len(fa) != 4 || len(fr) != 4:
				case fa[0] != fr[0]:
					what = "len"
				case fa[2] != fr[2]:
					what = "reordered"
				case fa[3] != fr[3]:
					what = "scratch"
				case fa[1] != fr[1]:
					what = "size"
				default:
					what = "page"
				}
				break
			}
		}
		call := ""
		if at >= 0 && at < len(c.calls) {
			call = strings.SplitN(c.calls[at], ":", 2)[0]
		}
		ctx.Fail("L2", fmt.Sprintf("bufreset-mirror kind=%s field=%s after=%s", strings.SplitN(c.shape, "-", 2)[0], what, call),
			"a column buffer stepped through a write/swap/page/reset history does not show the observation of the Lean mirror (ResetBuf) at call "+fmt.Sprint(at),
			map[string]any{"request": c.req, "library": c.real, "model": a, "shape": c.shape})
	}
}

func c17brOne(ctx *core.Ctx, sh *c17brShape, r *rand.Rand) *c17brCase {
	var ops, lastGen []string
	ngen := 1 + r.Intn(3)
	priorSwapped := false
	for g := 0; g < ngen; g++ {
		o, sw, _ := c17brGeneration(r, sh, false)
		ops = append(ops, o...)
		priorSwapped = priorSwapped || sw
	}
	lastGen, _, rows := c17brGeneration(r, sh, true)
	ops = append(ops, lastGen...)
	op := "bufreset.opt"
	if sh.repeated {
		op = "bufreset.rep"
	}
	req := fmt.Sprintf("%s %d %s", op, sh.maxDef, strings.Join(ops, " "))
	ctx.Case(req, priorSwapped && rows > 0)
	ctx.Hist("bufreset-shape", sh.name)
	ctx.Hist("bufreset-generations", fmt.Sprint(ngen+1))
	ctx.Hist("bufreset-calls", fmt.Sprint(len(ops)/8*8)+"+")

	col := c17brNewColumn(sh)
	obs := make([]string, 0, len(ops))
	for i, o := range ops {
		x, err := c17brApply(sh, col, o)
		if err != nil {
			ctx.Fail("L1", "bufreset-call-failed kind="+strings.SplitN(sh.name, "-", 2)[0]+" call="+o[:1],
				"a call on a reused column buffer failed: "+err.Error(), map[string]any{"request": req, "call": i, "shape": sh.name})
			return nil
		}
		obs = append(obs, x)
		ctx.Hist("bufreset-op", o[:1])
	}
	// L1: the last generation on a fresh column buffer
	fresh := c17brNewColumn(sh)
	base := len(ops) - len(lastGen)
	for i, o := range lastGen {
		x, err := c17brApply(sh, fresh, o)
		if err != nil {
			ctx.Fail("L1", "bufreset-call-failed-fresh", err.Error(), map[string]any{"request": req, "call": i})
			return nil
		}
		// observation = len/size/reordered/scratch[|page]: Len and the page are what the property
		// states; the flags and scratch lengths legitimately differ
		a, b := strings.SplitN(obs[base+i], "|", 2), strings.SplitN(x, "|", 2)
		fa, fb := strings.Split(a[0], "/"), strings.Split(b[0], "/")
		samePage := len(a) == len(b) && (len(a) < 2 || a[1] == b[1])
		if fa[0] != fb[0] || !samePage {
			what := "page"
			if fa[0] != fb[0] {
				what = "len"
			}
			ctx.Fail("L1", fmt.Sprintf("bufreset-differs-from-fresh kind=%s field=%s", strings.SplitN(sh.name, "-", 2)[0], what),
				"a column buffer reused through Reset shows another "+what+" than a fresh one after the same calls",
				map[string]any{"request": req, "last_generation": strings.Join(lastGen, " "), "call": i, "reused": obs[base+i], "fresh": x, "shape": sh.name})
			return nil
		}
		if fa[1] != fb[1] {
			ctx.Hist("bufreset-size-vs-fresh", "differs kind="+strings.SplitN(sh.name, "-", 2)[0])
			ctx.Observe("bufreset-size-counts-stale-sort-index kind="+strings.SplitN(sh.name, "-", 2)[0],
				"Size() of a column buffer reused through Reset differs from a fresh one's after the same calls (optionalColumnBuffer.Size counts 4*len(sortIndex), which Reset does not truncate)",
				map[string]any{"request": req, "last_generation": strings.Join(lastGen, " "), "call": i, "reused": obs[base+i], "fresh": x, "shape": sh.name})
		} else {
			ctx.Hist("bufreset-size-vs-fresh", "equal kind="+strings.SplitN(sh.name, "-", 2)[0])
		}
	}
	if r.Intn(400) == 0 {
		ctx.Sample(map[string]any{"request": req, "library": strings.Join(obs, " ")})
	}
	return &c17brCase{req: req, real: strings.Join(obs, " "), shape: sh.name, calls: ops}
}
