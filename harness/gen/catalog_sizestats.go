package gen

// Types for the C02 sub-check sizestats: BYTE_ARRAY columns under dictionary encoding in every
// position (required, optional, repeated, inside a repeated group), next to PLAIN / DELTA byte
// arrays and to dictionary columns of other physical types, so that the statistics the footer and
// the page indexes derive from the values (SizeStatistics, level histograms, null counts) see
// every branch. Not part of Catalog: the other checks keep their case streams.

type SS01 struct {
	Dict  string  `parquet:"dict,dict"`
	Opt   *string `parquet:"opt,optional,dict"`
	Plain string  `parquet:"plain"`
	Num   int64   `parquet:"num,dict"`
}

type SS02 struct {
	Tags []string `parquet:"tags,list,dict"`
	Raw  [][]byte `parquet:"raw,dict"`
	Blob []byte   `parquet:"blob,optional,dict"`
	Doc  string   `parquet:"doc,json,dict"`
}

type SS03_Item struct {
	Name string  `parquet:"name,dict"`
	Note *string `parquet:"note,optional,dict"`
	Qty  int32   `parquet:"qty"`
}

type SS03 struct {
	Items []SS03_Item `parquet:"items"`
	Key   string      `parquet:"key,dict,snappy"`
	Delta string      `parquet:"delta,delta"`
	Fixed [6]byte     `parquet:"fixed,dict"`
	Split []byte      `parquet:"split,optional,delta"`
}

// SizeStatsCatalog: the entries above (those the library accepts)
var SizeStatsCatalog []*Entry

func init() {
	for _, e := range []*Entry{entryOf[SS01]("SS01"), entryOf[SS02]("SS02"), entryOf[SS03]("SS03")} {
		if e != nil {
			SizeStatsCatalog = append(SizeStatsCatalog, e)
		}
	}
}
