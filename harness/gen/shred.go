package gen

import (
	"encoding/binary"
	"encoding/hex"
	"fmt"
	"math"
	"reflect"
	"sort"
	"strings"
	"time"

	"github.com/parquet-go/parquet-go"
	"github.com/parquet-go/parquet-go/format"
)

// Triple is one entry of a leaf column's Dremel stream. Val is a canonical text of the
// non-null value: hex of its PLAIN bytes ("-" for the empty byte string).
type Triple struct {
	Null bool
	Val  string
	Rep  int
	Def  int
}

func (t Triple) String() string {
	if t.Null {
		return fmt.Sprintf("n/%d/%d", t.Rep, t.Def)
	}
	return fmt.Sprintf("%s/%d/%d", t.Val, t.Rep, t.Def)
}

func hexOrDash(b []byte) string {
	if len(b) == 0 {
		return "-"
	}
	return hex.EncodeToString(b)
}

// ValueKey is the canonical text of a parquet.Value read back from the library.
func ValueKey(v parquet.Value) string {
	switch v.Kind() {
	case parquet.Boolean:
		if v.Boolean() {
			return "01"
		}
		return "00"
	case parquet.Int32:
		var b [4]byte
		binary.LittleEndian.PutUint32(b[:], uint32(v.Int32()))
		return hex.EncodeToString(b[:])
	case parquet.Int64:
		var b [8]byte
		binary.LittleEndian.PutUint64(b[:], uint64(v.Int64()))
		return hex.EncodeToString(b[:])
	case parquet.Float:
		var b [4]byte
		binary.LittleEndian.PutUint32(b[:], math.Float32bits(v.Float()))
		return hex.EncodeToString(b[:])
	case parquet.Double:
		var b [8]byte
		binary.LittleEndian.PutUint64(b[:], math.Float64bits(v.Double()))
		return hex.EncodeToString(b[:])
	case parquet.Int96:
		return hexOrDash(v.Bytes())
	default:
		return hexOrDash(v.ByteArray())
	}
}

func TripleOf(v parquet.Value) Triple {
	if v.IsNull() {
		return Triple{Null: true, Rep: v.RepetitionLevel(), Def: v.DefinitionLevel()}
	}
	return Triple{Val: ValueKey(v), Rep: v.RepetitionLevel(), Def: v.DefinitionLevel()}
}

// timeLeaf: the documented mapping of a time.Time onto a leaf — TIMESTAMP(unit): the count of
// units since the Unix epoch; DATE: the number of days since the Unix epoch.
func timeLeaf(typ parquet.Type, t time.Time) reflect.Value {
	if lt := typ.LogicalType(); lt != nil {
		switch ltv := lt.Value.(type) {
		case *format.DateType:
			sec := t.Unix()
			days := sec / 86400
			if sec%86400 < 0 {
				days--
			}
			return reflect.ValueOf(int32(days))
		case *format.TimestampType:
			switch ltv.Unit.Value.(type) {
			case *format.MilliSeconds:
				return reflect.ValueOf(t.UnixMilli())
			case *format.MicroSeconds:
				return reflect.ValueOf(t.UnixMicro())
			}
		}
	}
	return reflect.ValueOf(t.UnixNano())
}

// uuidBytes parses the text form of a UUID (the documented content of a string field with the
// uuid tag); ok = false when the text is not a UUID.
func uuidBytes(s string) ([]byte, bool) {
	h := strings.ReplaceAll(s, "-", "")
	b, err := hex.DecodeString(h)
	if err != nil || len(b) != 16 || len(s) != 36 {
		return nil, false
	}
	return b, true
}

// leafKey: canonical text of a Go leaf value for a leaf of the given type.
func leafKey(typ parquet.Type, v reflect.Value) string {
	kind := typ.Kind()
	if v.Type() == timeType {
		c := reflect.New(timeType).Elem()
		c.Set(v)
		v = timeLeaf(typ, c.Interface().(time.Time))
	}
	switch kind {
	case parquet.Boolean:
		if v.Bool() {
			return "01"
		}
		return "00"
	case parquet.Int32:
		var x uint32
		switch v.Kind() {
		case reflect.Int8, reflect.Int16, reflect.Int32, reflect.Int, reflect.Int64:
			x = uint32(int32(v.Int()))
		default:
			x = uint32(v.Uint())
		}
		var b [4]byte
		binary.LittleEndian.PutUint32(b[:], x)
		return hex.EncodeToString(b[:])
	case parquet.Int64:
		var x uint64
		switch v.Kind() {
		case reflect.Int8, reflect.Int16, reflect.Int32, reflect.Int, reflect.Int64:
			x = uint64(v.Int())
		default:
			x = v.Uint()
		}
		var b [8]byte
		binary.LittleEndian.PutUint64(b[:], x)
		return hex.EncodeToString(b[:])
	case parquet.Float:
		var b [4]byte
		binary.LittleEndian.PutUint32(b[:], math.Float32bits(*(v.Addr().Interface().(*float32))))
		return hex.EncodeToString(b[:])
	case parquet.Double:
		var b [8]byte
		binary.LittleEndian.PutUint64(b[:], math.Float64bits(v.Float()))
		return hex.EncodeToString(b[:])
	default:
		switch v.Kind() {
		case reflect.String:
			if kind == parquet.FixedLenByteArray {
				if b, ok := uuidBytes(v.String()); ok {
					return hexOrDash(b)
				}
			}
			return hexOrDash([]byte(v.String()))
		case reflect.Slice:
			return hexOrDash(v.Bytes())
		case reflect.Array:
			b := make([]byte, v.Len())
			for i := range b {
				b[i] = byte(v.Index(i).Uint())
			}
			return hexOrDash(b)
		}
	}
	panic("leafKey: unsupported " + v.Type().String())
}

// isNullGo: the documented mapping — nil pointer/slice/map, or the zero value of a non-pointer
// field carrying the optional tag, is null.
func isNullGo(v reflect.Value) bool {
	switch v.Kind() {
	case reflect.Invalid:
		return true
	case reflect.Ptr, reflect.Interface, reflect.Slice, reflect.Map:
		return v.IsNil()
	case reflect.Struct:
		if v.Type() == timeType {
			return timeOf(v).IsZero() // the zero instant
		}
		// a non-pointer struct on an optional field: its zero value (every field zero: "" whatever
		// its data pointer, nil slices and pointers) is the null, like for every other non-pointer type
		return v.IsZero()
	case reflect.Float32, reflect.Float64:
		// -0.0 is a value: only the all-zero bit pattern is the zero that maps to null
		// (C01 demands bit-identical floats, which a null could not give back)
		return math.Float64bits(v.Float()) == 0
	default:
		return v.IsZero()
	}
}

func isListNode(n parquet.Node) bool {
	if n.Leaf() {
		return false
	}
	lt := n.Type().LogicalType()
	if lt == nil {
		return false
	}
	_, ok := lt.Value.(*format.ListType)
	return ok
}

func fieldByTagName(v reflect.Value, name string) reflect.Value {
	if f, ok := lookupField(v, name); ok {
		return f
	}
	panic("no field " + name + " in " + v.Type().String())
}

// lookupField finds the struct field whose parquet name is `name`; the fields of embedded
// (anonymous, untagged) structs are promoted, as the schema flattens them.
func lookupField(v reflect.Value, name string) (reflect.Value, bool) {
	t := v.Type()
	for i := 0; i < t.NumField(); i++ {
		sf := t.Field(i)
		tag := sf.Tag.Get("parquet")
		if sf.Anonymous && tag == "" && sf.Type.Kind() == reflect.Struct {
			if f, ok := lookupField(v.Field(i), name); ok {
				return f, true
			}
			continue
		}
		tn := splitTag(tag)[0]
		if tn == "" {
			tn = sf.Name
		}
		if tn == name {
			return v.Field(i), true
		}
	}
	return reflect.Value{}, false
}

type levels struct{ rep, depth, def int }

// Shredder computes the reference Dremel streams of Go values for a schema, following the
// documented mapping only (it does not call the library's Deconstruct). It also emits the
// abstract value in the text form of the Lean model (Val), so that the same case can be shredded
// by the Lean `shred` whose round-trip theorem is proved.
type Shredder struct {
	Cols [][]Triple
	col  int
	// value table for the Lean side: leaf values are numbered per case
	ids map[string]int
}

const (
	modeAsIs = iota
	modeRequired
)

// ShredRow appends one row. root is the schema (a group), v the struct value.
func (s *Shredder) ShredRow(root parquet.Node, v reflect.Value) string {
	s.col = 0
	if s.ids == nil {
		s.ids = map[string]int{}
	}
	var sb strings.Builder
	s.node(root, modeRequired, levels{}, v, &sb)
	return sb.String()
}

// ID is the number the shredder uses for a leaf value (canonical text) in its Val / stream texts.
func (s *Shredder) ID(key string) int {
	if s.ids == nil {
		s.ids = map[string]int{}
	}
	return s.id(key)
}

func (s *Shredder) id(key string) int {
	if i, ok := s.ids[key]; ok {
		return i
	}
	i := len(s.ids)
	s.ids[key] = i
	return i
}

// node emits the streams of the subtree and writes the Lean Val text to sb.
// Val text: P<id> prim | S(..,..) struct | N none | J(x) some | L(..,..) list
func (s *Shredder) node(n parquet.Node, mode int, lv levels, v reflect.Value, sb *strings.Builder) {
	switch {
	case mode == modeAsIs && n.Optional():
		if v.IsValid() && !isNullGo(v) {
			if v.Kind() == reflect.Ptr {
				v = v.Elem()
			}
			lv.def++
			sb.WriteString("J(")
			s.node(n, modeRequired, lv, v, sb)
			sb.WriteString(")")
		} else {
			sb.WriteString("N")
			s.node(n, modeRequired, lv, reflect.Value{}, new(strings.Builder))
		}
	case mode == modeAsIs && n.Repeated():
		s.repeated(n, lv, v, sb, func(e reflect.Value, lv levels, sb *strings.Builder) {
			s.node(n, modeRequired, lv, e, sb)
		})
	case isListNode(n):
		// group (LIST) { repeated group list { element } }: in the Lean model this is
		// S( L( S(elem), ... ) )
		elem := n.Fields()[0].Fields()[0]
		sb.WriteString("S(")
		s.repeated(elem, lv, v, sb, func(e reflect.Value, lv levels, sb *strings.Builder) {
			sb.WriteString("S(")
			s.node(elem, modeAsIs, lv, e, sb)
			sb.WriteString(")")
		})
		sb.WriteString(")")
	case isMapNode(n) && (!v.IsValid() || v.Kind() == reflect.Map):
		// group (MAP) { repeated group key_value { key; value } }: in the Lean model
		// S( L( S(key,value), ... ) ); a Go map has no entry order, the reference takes the
		// entries in key order and streams of map columns are compared up to entry order
		kv := n.Fields()[0]
		key, val := kv.Fields()[0], kv.Fields()[1]
		var entries []reflect.Value // (k, v) pairs, addressable copies
		if v.IsValid() {
			keys := v.MapKeys()
			sort.Slice(keys, func(i, j int) bool { return fmt.Sprint(keys[i].Interface()) < fmt.Sprint(keys[j].Interface()) })
			for _, k := range keys {
				kc := reflect.New(k.Type()).Elem()
				kc.Set(k)
				vc := reflect.New(v.Type().Elem()).Elem()
				vc.Set(v.MapIndex(k))
				entries = append(entries, kc, vc)
			}
		}
		sb.WriteString("S(")
		s.repeatedN(lv, len(entries)/2, sb, func(i int, lv levels, sb *strings.Builder) {
			var k, e reflect.Value
			if i >= 0 {
				k, e = entries[2*i], entries[2*i+1]
			}
			sb.WriteString("S(")
			s.node(key, modeAsIs, lv, k, sb)
			sb.WriteString(",")
			s.node(val, modeAsIs, lv, e, sb)
			sb.WriteString(")")
		})
		sb.WriteString(")")
	case n.Leaf():
		t := Triple{Rep: lv.rep, Def: lv.def, Null: true}
		if v.IsValid() {
			t.Null = false
			t.Val = leafKey(n.Type(), v)
			fmt.Fprintf(sb, "P%d", s.id(t.Val))
		} else {
			sb.WriteString("N")
		}
		for len(s.Cols) <= s.col {
			s.Cols = append(s.Cols, nil)
		}
		s.Cols[s.col] = append(s.Cols[s.col], t)
		s.col++
	default: // group
		sb.WriteString("S(")
		for i, f := range n.Fields() {
			if i > 0 {
				sb.WriteString(",")
			}
			fv := reflect.Value{}
			if v.IsValid() {
				fv = fieldByTagName(v, f.Name())
			}
			s.node(f, modeAsIs, lv, fv, sb)
		}
		sb.WriteString(")")
	}
}

func (s *Shredder) repeated(n parquet.Node, lv levels, v reflect.Value, sb *strings.Builder,
	each func(e reflect.Value, lv levels, sb *strings.Builder)) {
	cnt := 0
	if v.IsValid() {
		cnt = v.Len()
	}
	s.repeatedN(lv, cnt, sb, func(i int, lv levels, sb *strings.Builder) {
		if i < 0 {
			each(reflect.Value{}, lv, sb)
		} else {
			each(v.Index(i), lv, sb)
		}
	})
}

// repeatedN: a repeated node with cnt elements; each(-1) emits the placeholder of the empty list.
func (s *Shredder) repeatedN(lv levels, cnt int, sb *strings.Builder, each func(i int, lv levels, sb *strings.Builder)) {
	if cnt == 0 {
		sb.WriteString("L()")
		each(-1, lv, new(strings.Builder))
		return
	}
	lv.depth++
	lv.def++
	sb.WriteString("L(")
	start := s.col
	for i := 0; i < cnt; i++ {
		if i > 0 {
			sb.WriteString(",")
		}
		s.col = start // every element feeds the same leaf columns
		each(i, lv, sb)
		lv.rep = lv.depth
	}
	sb.WriteString(")")
}

func isMapNode(n parquet.Node) bool {
	if n.Leaf() {
		return false
	}
	lt := n.Type().LogicalType()
	if lt == nil {
		return false
	}
	_, ok := lt.Value.(*format.MapType)
	return ok
}

// NodeText renders the schema in the text form of the Lean model:
// F leaf | G(..) group | O(x) optional | R(x) repeated
func NodeText(n parquet.Node) string {
	var sb strings.Builder
	nodeText(n, modeRequired, &sb)
	return sb.String()
}

func nodeText(n parquet.Node, mode int, sb *strings.Builder) {
	switch {
	case mode == modeAsIs && n.Optional():
		sb.WriteString("O(")
		nodeText(n, modeRequired, sb)
		sb.WriteString(")")
	case mode == modeAsIs && n.Repeated():
		sb.WriteString("R(")
		nodeText(n, modeRequired, sb)
		sb.WriteString(")")
	case isListNode(n):
		elem := n.Fields()[0].Fields()[0]
		sb.WriteString("G(R(G(")
		nodeText(elem, modeAsIs, sb)
		sb.WriteString(")))")
	case n.Leaf():
		sb.WriteString("F")
	default:
		sb.WriteString("G(")
		for i, f := range n.Fields() {
			if i > 0 {
				sb.WriteString(",")
			}
			nodeText(f, modeAsIs, sb)
		}
		sb.WriteString(")")
	}
}

// ColsText renders streams as `v/r/d v/r/d;...` with values replaced by their ids (Lean side form).
func (s *Shredder) ColsText() string {
	var sb strings.Builder
	for i, c := range s.Cols {
		if i > 0 {
			sb.WriteString(";")
		}
		for j, t := range c {
			if j > 0 {
				sb.WriteString(" ")
			}
			if t.Null {
				fmt.Fprintf(&sb, "n/%d/%d", t.Rep, t.Def)
			} else {
				fmt.Fprintf(&sb, "%d/%d/%d", s.id(t.Val), t.Rep, t.Def)
			}
		}
	}
	return sb.String()
}

func ColsString(cols [][]Triple) string {
	var sb strings.Builder
	for i, c := range cols {
		if i > 0 {
			sb.WriteString(" ; ")
		}
		for j, t := range c {
			if j > 0 {
				sb.WriteString(" ")
			}
			sb.WriteString(t.String())
		}
	}
	return sb.String()
}
