package gen

// Catalogue types of round 4: GEOMETRY / GEOGRAPHY columns (documented tags `geometry(crs)` and
// `geography(crs:algorithm)` on []byte fields holding well-known binary). Column writers of such
// leaves carry a geospatial statistics accumulator (bounding box incl. optional Z / M ranges, set
// of geometry type codes) next to the min/max statistics: state of the writer that the footer
// bytes depend on. Required, optional, below a pointer, repeated; one dictionary-encoded.
//
// GeoCatalog is kept OUT of the shared Catalog (the stream-level models of other properties do
// not know the logical types); C17 runs over Catalog + GeoCatalog.

type G001In struct {
	P []byte `parquet:"p,optional,geometry()"`
	N int32  `parquet:"n"`
}

type G001 struct {
	ID int64    `parquet:"id"`
	G  []byte   `parquet:"g,geometry(OGC:CRS84)"`
	O  []byte   `parquet:"o,optional,geography()"`
	D  []byte   `parquet:"d,dict,geometry()"`
	In *G001In  `parquet:"in"`
	L  [][]byte `parquet:"l,list" parquet-element:",geometry()"`
}

type G002 struct {
	G []byte  `parquet:"g,geography(OGC:CRS84:karney)"`
	S string  `parquet:"s,optional,dict"`
	F float64 `parquet:"f"`
}

var GeoCatalog []*Entry

// WithGeo returns the shared catalogue followed by the geospatial types.
func WithGeo() []*Entry {
	return append(append([]*Entry{}, Catalog...), GeoCatalog...)
}

func init() {
	for _, e := range []*Entry{entryOf[G001]("G001"), entryOf[G002]("G002")} {
		if e != nil {
			GeoCatalog = append(GeoCatalog, e)
		}
	}
}
