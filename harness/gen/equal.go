package gen

import (
	"fmt"
	"math"
	"reflect"
	"time"
)

// CanonEqual compares two Go values up to the documented mapping: nil and empty slices/maps are
// the same, floats compare by bit pattern, pointers by pointee (nil only equals nil).
// It returns a path to the first difference.
func CanonEqual(a, b reflect.Value, path string) (bool, string) {
	return canonEqual(a, b, path, false)
}

// CanonEqualOpt is CanonEqual that in addition tells nil from empty where the schema does: a
// map or list field carrying the `optional` tag is null when nil and present-but-empty when
// empty and non-nil (two different definition levels), so re-assembly must give back the same.
func CanonEqualOpt(a, b reflect.Value, path string) (bool, string) {
	return canonEqual(a, b, path, true)
}

func canonEqual(a, b reflect.Value, path string, strictOpt bool) (bool, string) {
	if a.Kind() != b.Kind() {
		return false, path + ": kind " + a.Kind().String() + " vs " + b.Kind().String()
	}
	switch a.Kind() {
	case reflect.Ptr:
		if a.IsNil() || b.IsNil() {
			if a.IsNil() != b.IsNil() {
				return false, fmt.Sprintf("%s: nil=%v vs nil=%v", path, a.IsNil(), b.IsNil())
			}
			return true, ""
		}
		return canonEqual(a.Elem(), b.Elem(), path, strictOpt)
	case reflect.Struct:
		if a.Type() == timeType {
			// the instant (location and monotonic reading are not stored)
			ta, tb := timeOf(a), timeOf(b)
			if !ta.Equal(tb) {
				return false, fmt.Sprintf("%s: time %s vs %s", path, ta.UTC().Format(time.RFC3339Nano), tb.UTC().Format(time.RFC3339Nano))
			}
			return true, ""
		}
		for i := 0; i < a.NumField(); i++ {
			fa, fb := a.Field(i), b.Field(i)
			if strictOpt && (fa.Kind() == reflect.Map || fa.Kind() == reflect.Slice && fa.Type().Elem().Kind() != reflect.Uint8) {
				for _, o := range splitTag(a.Type().Field(i).Tag.Get("parquet"))[1:] {
					if o == "optional" && fa.IsNil() != fb.IsNil() && (fa.Kind() == reflect.Map || hasTagOption(a.Type().Field(i), "list")) {
						return false, fmt.Sprintf("%s.%s: optional %s nil=%v vs nil=%v", path, a.Type().Field(i).Name, fa.Kind(), fa.IsNil(), fb.IsNil())
					}
				}
			}
			if ok, d := canonEqual(fa, fb, path+"."+a.Type().Field(i).Name, strictOpt); !ok {
				return false, d
			}
		}
		return true, ""
	case reflect.Map:
		if a.Len() != b.Len() {
			return false, fmt.Sprintf("%s: map len %d vs %d", path, a.Len(), b.Len())
		}
		for _, k := range a.MapKeys() {
			bv := b.MapIndex(k)
			if !bv.IsValid() {
				return false, fmt.Sprintf("%s: key %v missing", path, k)
			}
			// map values are not addressable: copy them
			av := reflect.New(a.Type().Elem()).Elem()
			av.Set(a.MapIndex(k))
			bc := reflect.New(b.Type().Elem()).Elem()
			bc.Set(bv)
			if ok, d := canonEqual(av, bc, fmt.Sprintf("%s[%v]", path, k), strictOpt); !ok {
				return false, d
			}
		}
		return true, ""
	case reflect.Slice:
		if a.Len() != b.Len() {
			return false, fmt.Sprintf("%s: len %d vs %d", path, a.Len(), b.Len())
		}
		for i := 0; i < a.Len(); i++ {
			if ok, d := canonEqual(a.Index(i), b.Index(i), fmt.Sprintf("%s[%d]", path, i), strictOpt); !ok {
				return false, d
			}
		}
		return true, ""
	case reflect.Array:
		for i := 0; i < a.Len(); i++ {
			if ok, d := canonEqual(a.Index(i), b.Index(i), fmt.Sprintf("%s[%d]", path, i), strictOpt); !ok {
				return false, d
			}
		}
		return true, ""
	case reflect.Float32:
		x := math.Float32bits(float32frombitsOf(a))
		y := math.Float32bits(float32frombitsOf(b))
		if x != y {
			return false, fmt.Sprintf("%s: float32 bits %08x vs %08x", path, x, y)
		}
		return true, ""
	case reflect.Float64:
		if math.Float64bits(a.Float()) != math.Float64bits(b.Float()) {
			return false, fmt.Sprintf("%s: float64 bits %016x vs %016x", path, math.Float64bits(a.Float()), math.Float64bits(b.Float()))
		}
		return true, ""
	case reflect.Bool:
		if a.Bool() != b.Bool() {
			return false, fmt.Sprintf("%s: %v vs %v", path, a.Bool(), b.Bool())
		}
		return true, ""
	case reflect.Int, reflect.Int8, reflect.Int16, reflect.Int32, reflect.Int64:
		if a.Int() != b.Int() {
			return false, fmt.Sprintf("%s: %d vs %d", path, a.Int(), b.Int())
		}
		return true, ""
	case reflect.Uint, reflect.Uint8, reflect.Uint16, reflect.Uint32, reflect.Uint64:
		if a.Uint() != b.Uint() {
			return false, fmt.Sprintf("%s: %d vs %d", path, a.Uint(), b.Uint())
		}
		return true, ""
	case reflect.String:
		if a.String() != b.String() {
			return false, fmt.Sprintf("%s: %q vs %q", path, a.String(), b.String())
		}
		return true, ""
	}
	return false, path + ": unsupported kind " + a.Kind().String()
}

// float32 values must not travel through float64 (a signalling NaN would be quieted).
func float32frombitsOf(v reflect.Value) float32 {
	if v.CanAddr() {
		return *(v.Addr().Interface().(*float32))
	}
	// not addressable: copy into an addressable value of the same type
	c := reflect.New(v.Type()).Elem()
	c.Set(v)
	return *(c.Addr().Interface().(*float32))
}

func timeOf(v reflect.Value) time.Time {
	c := reflect.New(timeType).Elem()
	c.Set(v)
	return c.Interface().(time.Time)
}

func hasTagOption(sf reflect.StructField, opt string) bool {
	for _, o := range splitTag(sf.Tag.Get("parquet"))[1:] {
		if o == opt {
			return true
		}
	}
	return false
}
