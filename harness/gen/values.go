package gen

import (
	"math"
	"math/rand"
	"reflect"
)

// Profile steers the random value filler.
type Profile struct {
	NullProb    float64 // probability that a pointer / optional field is nil / zero
	MaxLen      int     // max slice length
	SmallDomain bool    // few distinct values (dictionary hits, RLE runs)
	LongLists   bool    // one scalar slice per row gets 513-2100 elements (more than any internal chunk size)
	longUsed    bool
	RunLen      int // if > 0, null/non-null decisions are made in runs of about this length
	runLeft     map[string]int
	runNull     map[string]bool
}

var int32Pool = []int32{0, 1, -1, math.MinInt32, math.MaxInt32, 127, 128, -128, 255, 256, 65535, 65536, -65536}
var int64Pool = []int64{0, 1, -1, math.MinInt64, math.MaxInt64, math.MaxInt32, math.MinInt32, 1 << 32, -(1 << 32), 1 << 53}
var f32Pool = []uint32{0, 0x80000000, 0x3f800000, 0xbf800000, 0x7f800000, 0xff800000, 0x7fc00000, 0x7fc00001, 0xffc12345, 0x00000001, 0x7f7fffff, 0x7fa00000}
var f64Pool = []uint64{0, 0x8000000000000000, 0x3ff0000000000000, 0xbff0000000000000, 0x7ff0000000000000, 0xfff0000000000000, 0x7ff8000000000000, 0x7ff8000000000001, 0xfff8123456789abc, 1, 0x7fefffffffffffff, 0x7ff4000000000000}
var strPool = []string{"", "a", "b", "ab", "abc", "abd", "\xff", "\xff\xff\xff\xff\xff\xff", "\x00", "hello world", "hello worle", "prefix-shared-0001", "prefix-shared-0002", "prefix-shared-0002x", "\xff\xff\xff\xfe", "zzzzzzzzzzzzzzzzzzzzzzzzzzzzzzzzzzzzzzzzzzzzzzzzzzzzzzzzzzzzzzzzzzzzzzzzzzzz"}

func (p *Profile) null(r *rand.Rand, path string) bool {
	if p.RunLen <= 0 {
		return r.Float64() < p.NullProb
	}
	if p.runLeft == nil {
		p.runLeft, p.runNull = map[string]int{}, map[string]bool{}
	}
	if p.runLeft[path] <= 0 {
		// run lengths concentrated around multiples of 8 and 64
		base := []int{1, 2, 3, 7, 8, 9, 15, 16, 17, 31, 32, 33, 63, 64, 65}[r.Intn(15)]
		if p.RunLen < base {
			base = 1 + r.Intn(p.RunLen+1)
		}
		p.runLeft[path] = base
		p.runNull[path] = !p.runNull[path]
		if r.Intn(6) == 0 {
			p.runNull[path] = r.Intn(2) == 0
		}
	}
	p.runLeft[path]--
	return p.runNull[path]
}

// Fill sets v (addressable) to a random value. isOptional marks a non-pointer field carrying the
// `optional` tag (zero value = null), so that zero is produced with the null probability.
func Fill(r *rand.Rand, v reflect.Value, p *Profile, path string, isOptional bool) {
	switch v.Kind() {
	case reflect.Ptr:
		if p.null(r, path) {
			v.Set(reflect.Zero(v.Type()))
			return
		}
		nv := reflect.New(v.Type().Elem())
		Fill(r, nv.Elem(), p, path, false)
		v.Set(nv)
	case reflect.Struct:
		t := v.Type()
		for i := 0; i < t.NumField(); i++ {
			tag := t.Field(i).Tag.Get("parquet")
			opt := false
			for _, o := range splitTag(tag)[1:] {
				if o == "optional" {
					opt = true
				}
			}
			Fill(r, v.Field(i), p, path+"."+t.Field(i).Name, opt)
		}
	case reflect.Slice:
		if v.Type().Elem().Kind() == reflect.Uint8 { // []byte
			if isOptional && p.null(r, path) {
				v.Set(reflect.Zero(v.Type()))
				return
			}
			s := randString(r, p)
			b := []byte(s)
			if b == nil {
				b = []byte{}
			}
			v.SetBytes(b)
			return
		}
		k := r.Intn(5)
		var n int
		ek := v.Type().Elem().Kind()
		switch {
		case p.LongLists && !p.longUsed && ek != reflect.Struct && ek != reflect.Slice && ek != reflect.Ptr && ek != reflect.Map && r.Intn(3) > 0:
			// one scalar list per row only: nesting long lists multiplies out
			n = []int{513, 600, 1100, 2100}[r.Intn(4)]
			p.longUsed = true
		case k == 0:
			v.Set(reflect.Zero(v.Type())) // nil
			return
		case k == 1:
			n = 0 // empty, non-nil
		default:
			n = 1 + r.Intn(p.MaxLen)
		}
		s := reflect.MakeSlice(v.Type(), n, n)
		for i := 0; i < n; i++ {
			Fill(r, s.Index(i), p, path+"[]", false)
		}
		v.Set(s)
	case reflect.Map:
		k := r.Intn(5)
		if k == 0 {
			v.Set(reflect.Zero(v.Type()))
			return
		}
		m := reflect.MakeMap(v.Type())
		for i := 0; i < k-1; i++ {
			key := reflect.New(v.Type().Key()).Elem()
			key.SetString([]string{"a", "b", "k1", "k2", "zz", ""}[r.Intn(6)])
			val := reflect.New(v.Type().Elem()).Elem()
			Fill(r, val, p, path+"{}", false)
			m.SetMapIndex(key, val)
		}
		v.Set(m)
	case reflect.Array:
		if isOptional && p.null(r, path) {
			v.Set(reflect.Zero(v.Type()))
			return
		}
		for i := 0; i < v.Len(); i++ {
			if p.SmallDomain {
				v.Index(i).SetUint(uint64(r.Intn(2)))
			} else {
				v.Index(i).SetUint(uint64([]int{0, 1, 0xff, r.Intn(256)}[r.Intn(4)]))
			}
		}
	case reflect.Bool:
		if isOptional && p.null(r, path) {
			v.SetBool(false)
			return
		}
		v.SetBool(r.Intn(2) == 0 || isOptional && r.Intn(3) > 0)
	case reflect.Int8, reflect.Int16, reflect.Int32, reflect.Int64, reflect.Int:
		if isOptional && p.null(r, path) {
			v.SetInt(0)
			return
		}
		var x int64
		switch {
		case p.SmallDomain:
			x = int64(r.Intn(5)) - 1
		case r.Intn(3) == 0:
			if v.Kind() == reflect.Int64 || v.Kind() == reflect.Int {
				x = int64Pool[r.Intn(len(int64Pool))]
			} else {
				x = int64(int32Pool[r.Intn(len(int32Pool))])
			}
		case r.Intn(2) == 0:
			x = int64(r.Intn(2000)) - 1000
		default:
			x = int64(r.Uint64())
		}
		switch v.Kind() {
		case reflect.Int8:
			x = int64(int8(x))
		case reflect.Int16:
			x = int64(int16(x))
		case reflect.Int32:
			x = int64(int32(x))
		}
		v.SetInt(x)
	case reflect.Uint8, reflect.Uint16, reflect.Uint32, reflect.Uint64:
		if isOptional && p.null(r, path) {
			v.SetUint(0)
			return
		}
		var x uint64
		switch {
		case p.SmallDomain:
			x = uint64(r.Intn(4))
		case r.Intn(3) == 0:
			x = []uint64{0, 1, math.MaxUint32, math.MaxUint64, 1 << 31, 1 << 63, math.MaxInt32, math.MaxInt64}[r.Intn(8)]
		case r.Intn(2) == 0:
			x = uint64(r.Intn(2000))
		default:
			x = r.Uint64()
		}
		switch v.Kind() {
		case reflect.Uint8:
			x = uint64(uint8(x))
		case reflect.Uint16:
			x = uint64(uint16(x))
		case reflect.Uint32:
			x = uint64(uint32(x))
		}
		v.SetUint(x)
	case reflect.Float32:
		if isOptional && p.null(r, path) {
			v.SetFloat(0)
			return
		}
		var bits uint32
		switch {
		case p.SmallDomain:
			bits = math.Float32bits(float32(r.Intn(4)) - 1.5)
		case r.Intn(3) == 0:
			bits = f32Pool[r.Intn(len(f32Pool))]
		default:
			bits = math.Float32bits(float32(r.NormFloat64() * 1000))
		}
		// set through unsafe-free path: reflect.SetFloat goes through float64 which may quiet a
		// signalling NaN; write the bits directly
		*(v.Addr().Interface().(*float32)) = math.Float32frombits(bits)
	case reflect.Float64:
		if isOptional && p.null(r, path) {
			v.SetFloat(0)
			return
		}
		var bits uint64
		switch {
		case p.SmallDomain:
			bits = math.Float64bits(float64(r.Intn(4)) - 1.5)
		case r.Intn(3) == 0:
			bits = f64Pool[r.Intn(len(f64Pool))]
		default:
			bits = math.Float64bits(r.NormFloat64() * 1e6)
		}
		v.SetFloat(math.Float64frombits(bits))
	case reflect.String:
		if isOptional && p.null(r, path) {
			// the zero string, sometimes as an empty string whose data pointer is not nil
			// (a slice of a longer string): both are "" and must be null on every path
			if r.Intn(2) == 0 {
				s := emptyTailOf[r.Intn(len(emptyTailOf))]
				v.SetString(s[len(s):])
			} else {
				v.SetString("")
			}
			return
		}
		v.SetString(randString(r, p))
	}
}

var longPrefix = func() string {
	b := make([]byte, 300)
	for i := range b {
		b[i] = "https://example.org/a/rather/long/path/"[i%39] + byte(i/39)
	}
	return string(b)
}()

var emptyTailOf = []string{"abc", "prefix-shared-0001", "x"}

func randString(r *rand.Rand, p *Profile) string {
	switch {
	case p.SmallDomain:
		return []string{"x", "y", "zz", "x"}[r.Intn(4)]
	case r.Intn(2) == 0:
		return strPool[r.Intn(len(strPool))]
	case r.Intn(6) == 0:
		// families sharing a prefix longer than 32/64/128 bytes with a short suffix (URLs, paths):
		// front-coding kernels copy such prefixes in vector-sized steps
		pl := []int{33, 63, 64, 65, 70, 100, 129, 300}[r.Intn(8)]
		return longPrefix[:pl] + []string{"", "a", "b7", "idx", "/leaf"}[r.Intn(5)]
	default:
		n := r.Intn(24)
		if r.Intn(20) == 0 {
			n = 200 + r.Intn(2000)
		}
		b := make([]byte, n)
		for i := range b {
			b[i] = byte('a' + r.Intn(4))
			if r.Intn(16) == 0 {
				b[i] = byte(r.Intn(256))
			}
		}
		return string(b)
	}
}

func splitTag(tag string) []string {
	var out []string
	cur := ""
	depth := 0
	for _, c := range tag {
		switch {
		case c == '(':
			depth++
			cur += string(c)
		case c == ')':
			depth--
			cur += string(c)
		case c == ',' && depth == 0:
			out = append(out, cur)
			cur = ""
		default:
			cur += string(c)
		}
	}
	return append(out, cur)
}

// FillRows fills a []T (reflect slice) with random rows.
func FillRows(r *rand.Rand, rows reflect.Value, p *Profile) {
	for i := 0; i < rows.Len(); i++ {
		p.longUsed = false
		Fill(r, rows.Index(i), p, "", false)
	}
}
