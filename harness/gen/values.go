package gen

import (
	"fmt"
	"math"
	"math/rand"
	"reflect"
	"strconv"
	"strings"
	"time"
)

// Profile steers the random value filler.
type Profile struct {
	NullProb    float64 // probability that a pointer / optional field is nil / zero
	MaxLen      int     // max slice length
	SmallDomain bool    // few distinct values (dictionary hits, RLE runs)
	LongLists   bool    // one scalar slice per row gets 513-2100 elements (more than any internal chunk size)
	LongLen     int     // > 0 with LongLists: the long slice gets exactly this many elements
	longUsed    bool
	RunLen      int // if > 0, null/non-null decisions are made in runs of about this length
	runLeft     map[string]int
	runNull     map[string]bool
	hint        leafHint // what the tags of the struct field being filled say about its leaf values
	geoLayouts  []int    // coordinate layouts of the WKB values of this row set (wkb.go), drawn once
	geoInvalid  bool     // some values of the row set are not WKB
	// TagNulls: list elements / map values whose tag (parquet-element / parquet-value) carries
	// `optional` on a non-pointer Go type get their zero value (= the null of the entry) with the
	// null probability and in null runs, like optional struct fields do; the leaf hints of the
	// parquet-value tag apply to the values; one map in eight gets 9..70 entries (the null scan
	// of the value writer runs over all entries but the first). Off: zero only by chance.
	TagNulls bool
	elemOpt  bool // the struct field being filled has parquet-element:",optional"
	valOpt   bool // the struct field being filled has parquet-value:",optional"
}

// leafHint carries the tag-derived constraints of the leaf below the struct field being filled:
// values outside them are not "values of the type" as the documented tags define it (a uuid
// string must parse, a []byte decimal must have the column's length, a date has no time of day).
type leafHint struct {
	timeUnit time.Duration // granularity of time.Time values (0 = nanosecond); 24h for date
	fixedLen int           // > 0: []byte values have exactly this length (decimal on []byte)
	uuidText bool          // string holding the text form of a UUID
	jsonText bool          // string / []byte holding a JSON document
	timeOfDay bool         // int32/int64 with the time tag: within a day
	wkb       bool         // []byte holding a well-known-binary geometry (GEOMETRY / GEOGRAPHY columns)
}

func hintOfTag(tag string, t reflect.Type) (h leafHint) {
	for t.Kind() == reflect.Ptr || (t.Kind() == reflect.Slice && t.Elem().Kind() != reflect.Uint8) {
		t = t.Elem()
	}
	for _, o := range splitTag(tag)[1:] {
		name, args, _ := strings.Cut(o, "(")
		args = strings.TrimSuffix(args, ")")
		switch name {
		case "date":
			h.timeUnit = 24 * time.Hour
		case "timestamp":
			switch {
			case strings.HasPrefix(args, "micro"):
				h.timeUnit = time.Microsecond
			case strings.HasPrefix(args, "nano"):
				h.timeUnit = time.Nanosecond
			default:
				h.timeUnit = time.Millisecond
			}
		case "time":
			h.timeOfDay = true
		case "decimal":
			if t.Kind() == reflect.Slice {
				_, prec, _ := strings.Cut(args, ":")
				p, _ := strconv.Atoi(prec)
				h.fixedLen = int(math.Ceil((math.Log10(2) + float64(p)) / math.Log10(256)))
			}
		case "uuid":
			h.uuidText = t.Kind() == reflect.String
		case "json":
			h.jsonText = true
		case "geometry", "geography":
			h.wkb = true
		}
	}
	return h
}

var timeType = reflect.TypeOf(time.Time{})
var zeroLoc = time.FixedZone("verif", 3600)

// seconds since the epoch: boundaries of the representable ranges of the three timestamp units,
// the epoch itself (a value, not the zero time.Time), dates before 1970 (negative days, floor vs
// truncation), leap day
var timeSecPool = []int64{0, 1, -1, 86399, 86400, -86400, -86401, 951782400, 1700000000, 4102444800, -2208988800, 9214646400, -9214646400}

func randTime(r *rand.Rand, p *Profile) time.Time {
	unit := p.hint.timeUnit
	if unit == 0 {
		unit = time.Nanosecond
	}
	var sec, nsec int64
	switch {
	case p.SmallDomain:
		sec = int64(r.Intn(4)) * 86400
	case r.Intn(2) == 0:
		sec = timeSecPool[r.Intn(len(timeSecPool))]
	default:
		sec = r.Int63n(4000000000) - 1000000000
	}
	if !p.SmallDomain && r.Intn(2) == 0 {
		nsec = []int64{1, 999, 1000, 999999, 1000000, 999999999, 500000000}[r.Intn(7)]
	}
	t := time.Unix(sec, nsec).UTC()
	if unit > time.Nanosecond {
		t = t.Truncate(unit)
	}
	return t
}

var jsonPool = []string{`{}`, `[]`, `{"a":1}`, `"x"`, `[1,2,{"b":null}]`, `0`, `{"k":"v","n":[true,false]}`, `"\u00e9"`}

var int32Pool = []int32{0, 1, -1, math.MinInt32, math.MaxInt32, 127, 128, -128, 255, 256, 65535, 65536, -65536, -256, 0x7f00, -0x8000, 0x01000000}
var int64Pool = []int64{0, 1, -1, math.MinInt64, math.MaxInt64, math.MaxInt32, math.MinInt32, 1 << 32, -(1 << 32), 1 << 53}

// unsigned boundary values; the second half are the values whose low-order bytes are all zero at
// every width (a null test reading fewer bytes than the element sees them as zero) or whose
// high-order bytes are zero
var uintPool = []uint64{0, 1, math.MaxUint32, math.MaxUint64, 1 << 31, 1 << 63, math.MaxInt32, math.MaxInt64,
	0x80, 0xff, 0x100, 0x8000, 0xff00, 0x10000, 0xffff0000, 1 << 32, 0xffffffff00000000, 0xff00000000000000, 0x0100000001000100}
var f32Pool = []uint32{0, 0x80000000, 0x3f800000, 0xbf800000, 0x7f800000, 0xff800000, 0x7fc00000, 0x7fc00001, 0xffc12345, 0x00000001, 0x7f7fffff, 0x7fa00000}
var f64Pool = []uint64{0, 0x8000000000000000, 0x3ff0000000000000, 0xbff0000000000000, 0x7ff0000000000000, 0xfff0000000000000, 0x7ff8000000000000, 0x7ff8000000000001, 0xfff8123456789abc, 1, 0x7fefffffffffffff, 0x7ff4000000000000}
var strPool = []string{"", "a", "b", "ab", "abc", "abd", "\xff", "\xff\xff\xff\xff\xff\xff", "\x00", "hello world", "hello worle", "prefix-shared-0001", "prefix-shared-0002", "prefix-shared-0002x", "\xff\xff\xff\xfe", "zzzzzzzzzzzzzzzzzzzzzzzzzzzzzzzzzzzzzzzzzzzzzzzzzzzzzzzzzzzzzzzzzzzzzzzzzzzz"}

func (p *Profile) null(r *rand.Rand, path string) bool {
	if p.RunLen <= 0 {
		return r.Float64() < p.NullProb
	}
	if p.runLeft == nil {
		p.runLeft, p.runNull = map[string]int{}, map[string]bool{}
	}
	if p.runLeft[path] <= 0 {
		// run lengths concentrated around multiples of 8 and 64
		base := []int{1, 2, 3, 7, 8, 9, 15, 16, 17, 31, 32, 33, 63, 64, 65}[r.Intn(15)]
		if p.RunLen < base {
			base = 1 + r.Intn(p.RunLen+1)
		}
		p.runLeft[path] = base
		p.runNull[path] = !p.runNull[path]
		if r.Intn(6) == 0 {
			p.runNull[path] = r.Intn(2) == 0
		}
	}
	p.runLeft[path]--
	return p.runNull[path]
}

// Fill sets v (addressable) to a random value. isOptional marks a non-pointer field carrying the
// `optional` tag (zero value = null), so that zero is produced with the null probability.
func Fill(r *rand.Rand, v reflect.Value, p *Profile, path string, isOptional bool) {
	switch v.Kind() {
	case reflect.Ptr:
		if p.null(r, path) {
			v.Set(reflect.Zero(v.Type()))
			return
		}
		nv := reflect.New(v.Type().Elem())
		Fill(r, nv.Elem(), p, path, false)
		v.Set(nv)
	case reflect.Struct:
		t := v.Type()
		if t == timeType {
			// the zero time.Time is the null of an optional non-pointer field; every other
			// instant (the epoch included) is a value
			if isOptional && p.null(r, path) {
				// the zero instant, sometimes carrying a location (time.Time{}.In(loc) is
				// IsZero() but not the zero struct): null on every path
				if r.Intn(3) == 0 {
					v.Set(reflect.ValueOf(time.Time{}.In(zeroLoc)))
				} else {
					v.Set(reflect.Zero(t))
				}
				return
			}
			v.Set(reflect.ValueOf(randTime(r, p)))
			return
		}
		if isOptional && p.null(r, path) {
			// the zero struct is the null of an optional non-pointer struct field
			v.Set(reflect.Zero(t))
			return
		}
		saved, savedElem, savedVal := p.hint, p.elemOpt, p.valOpt
		for i := 0; i < t.NumField(); i++ {
			tag := t.Field(i).Tag.Get("parquet")
			opt := false
			for _, o := range splitTag(tag)[1:] {
				if o == "optional" {
					opt = true
				}
			}
			p.hint = hintOfTag(tag, t.Field(i).Type)
			if et := t.Field(i).Tag.Get("parquet-element"); et != "" {
				p.hint = hintOfTag(et, t.Field(i).Type)
			}
			p.elemOpt, p.valOpt = false, false
			if p.TagNulls {
				p.elemOpt = tagHasOption(t.Field(i).Tag.Get("parquet-element"), "optional")
				p.valOpt = tagHasOption(t.Field(i).Tag.Get("parquet-value"), "optional")
				if vt := t.Field(i).Tag.Get("parquet-value"); vt != "" && t.Field(i).Type.Kind() == reflect.Map {
					p.hint = hintOfTag(vt, t.Field(i).Type.Elem())
				}
			}
			Fill(r, v.Field(i), p, path+"."+t.Field(i).Name, opt)
		}
		p.hint, p.elemOpt, p.valOpt = saved, savedElem, savedVal
	case reflect.Slice:
		if v.Type().Elem().Kind() == reflect.Uint8 { // []byte
			if isOptional && p.null(r, path) {
				v.Set(reflect.Zero(v.Type()))
				return
			}
			s := randString(r, p)
			b := []byte(s)
			if b == nil {
				b = []byte{}
			}
			if n := p.hint.fixedLen; n > 0 {
				b = make([]byte, n)
				for i := range b {
					b[i] = byte([]int{0, 1, 0xff, 0x80, r.Intn(256)}[r.Intn(5)])
				}
			}
			if p.hint.jsonText {
				b = []byte(jsonPool[r.Intn(len(jsonPool))])
			}
			if p.hint.wkb {
				b = randWKB(r, p)
			}
			v.SetBytes(b)
			return
		}
		k := r.Intn(5)
		var n int
		ek := v.Type().Elem().Kind()
		switch {
		case p.LongLists && !p.longUsed && ek != reflect.Struct && ek != reflect.Slice && ek != reflect.Ptr && ek != reflect.Map && r.Intn(3) > 0:
			// one scalar list per row only: nesting long lists multiplies out
			n = []int{513, 600, 1100, 2100}[r.Intn(4)]
			if p.LongLen > 0 {
				n = p.LongLen
			}
			p.longUsed = true
		case k == 0:
			v.Set(reflect.Zero(v.Type())) // nil
			return
		case k == 1:
			n = 0 // empty, non-nil
		default:
			n = 1 + r.Intn(p.MaxLen)
		}
		s := reflect.MakeSlice(v.Type(), n, n)
		elemOpt := p.elemOpt
		p.elemOpt = false
		for i := 0; i < n; i++ {
			Fill(r, s.Index(i), p, path+"[]", elemOpt)
		}
		p.elemOpt = elemOpt
		v.Set(s)
	case reflect.Map:
		k := r.Intn(5)
		if k == 0 {
			v.Set(reflect.Zero(v.Type()))
			return
		}
		m := reflect.MakeMap(v.Type())
		valOpt := p.valOpt
		p.valOpt = false
		big := 0
		if p.TagNulls && r.Intn(8) == 0 {
			big = []int{9, 64, 65, 70}[r.Intn(4)]
		}
		for i := 0; i < k-1+big; i++ {
			key := reflect.New(v.Type().Key()).Elem()
			if i < k-1 {
				key.SetString([]string{"a", "b", "k1", "k2", "zz", ""}[r.Intn(6)])
			} else {
				key.SetString(fmt.Sprintf("e%03d", i))
			}
			val := reflect.New(v.Type().Elem()).Elem()
			Fill(r, val, p, path+"{}", valOpt)
			m.SetMapIndex(key, val)
		}
		p.valOpt = valOpt
		v.Set(m)
	case reflect.Array:
		if isOptional && p.null(r, path) {
			v.Set(reflect.Zero(v.Type()))
			return
		}
		for i := 0; i < v.Len(); i++ {
			if p.SmallDomain {
				v.Index(i).SetUint(uint64(r.Intn(2)))
			} else {
				v.Index(i).SetUint(uint64([]int{0, 1, 0xff, r.Intn(256)}[r.Intn(4)]))
			}
		}
	case reflect.Bool:
		if isOptional && p.null(r, path) {
			v.SetBool(false)
			return
		}
		v.SetBool(r.Intn(2) == 0 || isOptional && r.Intn(3) > 0)
	case reflect.Int8, reflect.Int16, reflect.Int32, reflect.Int64, reflect.Int:
		if isOptional && p.null(r, path) {
			v.SetInt(0)
			return
		}
		var x int64
		switch {
		case p.SmallDomain:
			x = int64(r.Intn(5)) - 1
		case r.Intn(3) == 0:
			if v.Kind() == reflect.Int64 || v.Kind() == reflect.Int {
				x = int64Pool[r.Intn(len(int64Pool))]
			} else {
				x = int64(int32Pool[r.Intn(len(int32Pool))])
			}
		case r.Intn(2) == 0:
			x = int64(r.Intn(2000)) - 1000
		default:
			x = int64(r.Uint64())
		}
		if p.hint.timeOfDay {
			// milliseconds (int32) / micro- or nanoseconds (int64) within a day
			if x < 0 {
				x = -(x + 1)
			}
			x %= 86400000
		}
		switch v.Kind() {
		case reflect.Int8:
			x = int64(int8(x))
		case reflect.Int16:
			x = int64(int16(x))
		case reflect.Int32:
			x = int64(int32(x))
		}
		v.SetInt(x)
	case reflect.Uint8, reflect.Uint16, reflect.Uint32, reflect.Uint64, reflect.Uint:
		if isOptional && p.null(r, path) {
			v.SetUint(0)
			return
		}
		var x uint64
		switch {
		case p.SmallDomain:
			x = uint64(r.Intn(4))
		case r.Intn(3) == 0:
			x = uintPool[r.Intn(len(uintPool))]
		case r.Intn(2) == 0:
			x = uint64(r.Intn(2000))
		default:
			x = r.Uint64()
		}
		switch v.Kind() {
		case reflect.Uint8:
			x = uint64(uint8(x))
		case reflect.Uint16:
			x = uint64(uint16(x))
		case reflect.Uint32:
			x = uint64(uint32(x))
		}
		v.SetUint(x)
	case reflect.Float32:
		if isOptional && p.null(r, path) {
			v.SetFloat(0)
			return
		}
		var bits uint32
		switch {
		case p.SmallDomain:
			bits = math.Float32bits(float32(r.Intn(4)) - 1.5)
		case r.Intn(3) == 0:
			bits = f32Pool[r.Intn(len(f32Pool))]
		default:
			bits = math.Float32bits(float32(r.NormFloat64() * 1000))
		}
		// set through unsafe-free path: reflect.SetFloat goes through float64 which may quiet a
		// signalling NaN; write the bits directly
		*(v.Addr().Interface().(*float32)) = math.Float32frombits(bits)
	case reflect.Float64:
		if isOptional && p.null(r, path) {
			v.SetFloat(0)
			return
		}
		var bits uint64
		switch {
		case p.SmallDomain:
			bits = math.Float64bits(float64(r.Intn(4)) - 1.5)
		case r.Intn(3) == 0:
			bits = f64Pool[r.Intn(len(f64Pool))]
		default:
			bits = math.Float64bits(r.NormFloat64() * 1e6)
		}
		v.SetFloat(math.Float64frombits(bits))
	case reflect.String:
		if isOptional && p.null(r, path) {
			// the zero string, sometimes as an empty string whose data pointer is not nil
			// (a slice of a longer string): both are "" and must be null on every path
			if r.Intn(2) == 0 {
				s := emptyTailOf[r.Intn(len(emptyTailOf))]
				v.SetString(s[len(s):])
			} else {
				v.SetString("")
			}
			return
		}
		switch {
		case p.hint.uuidText:
			var u [16]byte
			for i := range u {
				u[i] = byte([]int{0, 1, 0xff, r.Intn(256)}[r.Intn(4)])
			}
			if p.SmallDomain {
				u = [16]byte{15: byte(1 + r.Intn(3))}
			}
			v.SetString(fmt.Sprintf("%x-%x-%x-%x-%x", u[0:4], u[4:6], u[6:8], u[8:10], u[10:16]))
		case p.hint.jsonText:
			v.SetString(jsonPool[r.Intn(len(jsonPool))])
		default:
			v.SetString(randString(r, p))
		}
	}
}

var longPrefix = func() string {
	b := make([]byte, 300)
	for i := range b {
		b[i] = "https://example.org/a/rather/long/path/"[i%39] + byte(i/39)
	}
	return string(b)
}()

var emptyTailOf = []string{"abc", "prefix-shared-0001", "x"}

func randString(r *rand.Rand, p *Profile) string {
	switch {
	case p.SmallDomain:
		return []string{"x", "y", "zz", "x"}[r.Intn(4)]
	case r.Intn(2) == 0:
		return strPool[r.Intn(len(strPool))]
	case r.Intn(6) == 0:
		// families sharing a prefix longer than 32/64/128 bytes with a short suffix (URLs, paths):
		// front-coding kernels copy such prefixes in vector-sized steps
		pl := []int{33, 63, 64, 65, 70, 100, 129, 300}[r.Intn(8)]
		return longPrefix[:pl] + []string{"", "a", "b7", "idx", "/leaf"}[r.Intn(5)]
	default:
		n := r.Intn(24)
		if r.Intn(20) == 0 {
			n = 200 + r.Intn(2000)
		}
		b := make([]byte, n)
		for i := range b {
			b[i] = byte('a' + r.Intn(4))
			if r.Intn(16) == 0 {
				b[i] = byte(r.Intn(256))
			}
		}
		return string(b)
	}
}

func splitTag(tag string) []string {
	var out []string
	cur := ""
	depth := 0
	for _, c := range tag {
		switch {
		case c == '(':
			depth++
			cur += string(c)
		case c == ')':
			depth--
			cur += string(c)
		case c == ',' && depth == 0:
			out = append(out, cur)
			cur = ""
		default:
			cur += string(c)
		}
	}
	return append(out, cur)
}

func tagHasOption(tag, opt string) bool {
	if tag == "" {
		return false
	}
	for _, o := range splitTag(tag)[1:] {
		if o == opt {
			return true
		}
	}
	return false
}

// LongUsed: did the last row filled with this profile get its long list?
func (p *Profile) LongUsed() bool { return p.longUsed }

// FillRows fills a []T (reflect slice) with random rows.
func FillRows(r *rand.Rand, rows reflect.Value, p *Profile) {
	for i := 0; i < rows.Len(); i++ {
		p.longUsed = false
		Fill(r, rows.Index(i), p, "", false)
	}
}
