package gen

import (
	"bytes"
	"fmt"
	"io"

	"github.com/parquet-go/parquet-go"
)

// PageReadMode is one way of driving the page-level read API over a file.
type PageReadMode struct {
	DictFirst   bool // call FilePages.ReadDictionary() before the first ReadPage() of every chunk
	WholeColumn bool // read through File.Root()...Column.Pages() (all row groups) instead of chunk by chunk
	ValueBuf    int  // capacity of the []Value handed to ReadValues (0 = 256)
}

func (m PageReadMode) String() string {
	return fmt.Sprintf("dictfirst=%v wholecolumn=%v valuebuf=%d", m.DictFirst, m.WholeColumn, m.ValueBuf)
}

// ReadColumns reads every leaf column's stored stream (values with levels) through the page
// reader of each column chunk, concatenated over row groups.
func ReadColumns(file []byte, opts ...parquet.FileOption) (cols [][]Triple, err error) {
	return ReadColumnsMode(file, PageReadMode{}, opts...)
}

func leafColumns(c *parquet.Column, out []*parquet.Column) []*parquet.Column {
	if c.Leaf() {
		return append(out, c)
	}
	for _, k := range c.Columns() {
		out = leafColumns(k, out)
	}
	return out
}

// DrainPages appends every value of every page of pages to dst, reading values through buffers
// of the given capacity.
func DrainPages(pages parquet.Pages, valueBuf int, dst []Triple) ([]Triple, error) {
	if valueBuf <= 0 {
		valueBuf = 256
	}
	for {
		p, err := pages.ReadPage()
		if err == io.EOF {
			return dst, nil
		}
		if err != nil {
			return dst, fmt.Errorf("ReadPage: %w", err)
		}
		vr := p.Values()
		buf := make([]parquet.Value, valueBuf)
		for {
			n, err := vr.ReadValues(buf)
			for _, v := range buf[:n] {
				dst = append(dst, TripleOf(v))
			}
			if err == io.EOF {
				break
			}
			if err != nil {
				parquet.Release(p)
				return dst, fmt.Errorf("ReadValues: %w", err)
			}
			if n == 0 {
				parquet.Release(p)
				return dst, fmt.Errorf("ReadValues returned 0 values and no error")
			}
		}
		parquet.Release(p)
	}
}

// ReadColumnsMode is ReadColumns through one of the page-level read histories.
func ReadColumnsMode(file []byte, m PageReadMode, opts ...parquet.FileOption) (cols [][]Triple, err error) {
	defer catch(&err)
	f, err := parquet.OpenFile(bytes.NewReader(file), int64(len(file)), opts...)
	if err != nil {
		return nil, err
	}
	ncol := len(f.Schema().Columns())
	cols = make([][]Triple, ncol)
	if m.WholeColumn {
		for _, c := range leafColumns(f.Root(), nil) {
			ci := c.Index()
			pages := c.Pages()
			cols[ci], err = DrainPages(pages, m.ValueBuf, cols[ci])
			pages.Close()
			if err != nil {
				return cols, fmt.Errorf("column %d: %w", ci, err)
			}
		}
		return cols, nil
	}
	for _, rg := range f.RowGroups() {
		for ci, cc := range rg.ColumnChunks() {
			pages := cc.Pages()
			if fp, ok := pages.(*parquet.FilePages); ok && m.DictFirst {
				if _, err := fp.ReadDictionary(); err != nil {
					pages.Close()
					return cols, fmt.Errorf("column %d: ReadDictionary: %w", ci, err)
				}
			}
			cols[ci], err = DrainPages(pages, m.ValueBuf, cols[ci])
			pages.Close()
			if err != nil {
				return cols, fmt.Errorf("column %d: %w", ci, err)
			}
		}
	}
	return cols, nil
}

// ReadRowGroupColumns reads the column streams of an in-memory or file row group through
// ColumnChunks()[i].Pages() with value buffers of the given capacity.
func ReadRowGroupColumns(rg parquet.RowGroup, valueBuf int) (cols [][]Triple, err error) {
	defer catch(&err)
	chunks := rg.ColumnChunks()
	cols = make([][]Triple, len(chunks))
	for ci, cc := range chunks {
		pages := cc.Pages()
		cols[ci], err = DrainPages(pages, valueBuf, cols[ci])
		pages.Close()
		if err != nil {
			return cols, fmt.Errorf("column %d: %w", ci, err)
		}
	}
	return cols, nil
}

// ReadRowsColumns reads all rows through Rows().ReadRows and splits them into per-column streams.
func ReadRowsColumns(file []byte, batch int, opts ...parquet.FileOption) (cols [][]Triple, nrows int, err error) {
	defer catch(&err)
	f, err := parquet.OpenFile(bytes.NewReader(file), int64(len(file)), opts...)
	if err != nil {
		return nil, 0, err
	}
	ncol := len(f.Schema().Columns())
	cols = make([][]Triple, ncol)
	for _, rg := range f.RowGroups() {
		rows := rg.Rows()
		buf := make([]parquet.Row, batch)
		for {
			n, err := rows.ReadRows(buf)
			for _, row := range buf[:n] {
				nrows++
				for _, v := range row {
					cols[v.Column()] = append(cols[v.Column()], TripleOf(v))
				}
			}
			if err == io.EOF {
				break
			}
			if err != nil {
				rows.Close()
				return cols, nrows, err
			}
			if n == 0 {
				rows.Close()
				return cols, nrows, fmt.Errorf("ReadRows returned 0 rows and no error")
			}
		}
		rows.Close()
	}
	return cols, nrows, nil
}
