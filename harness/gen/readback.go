package gen

import (
	"bytes"
	"fmt"
	"io"

	"github.com/parquet-go/parquet-go"
)

// ReadColumns reads every leaf column's stored stream (values with levels) through the page
// reader of each column chunk, concatenated over row groups.
func ReadColumns(file []byte, opts ...parquet.FileOption) (cols [][]Triple, err error) {
	defer catch(&err)
	f, err := parquet.OpenFile(bytes.NewReader(file), int64(len(file)), opts...)
	if err != nil {
		return nil, err
	}
	ncol := len(f.Schema().Columns())
	cols = make([][]Triple, ncol)
	for _, rg := range f.RowGroups() {
		for ci, cc := range rg.ColumnChunks() {
			pages := cc.Pages()
			for {
				p, err := pages.ReadPage()
				if err == io.EOF {
					break
				}
				if err != nil {
					pages.Close()
					return cols, fmt.Errorf("column %d: ReadPage: %w", ci, err)
				}
				vr := p.Values()
				buf := make([]parquet.Value, 256)
				for {
					n, err := vr.ReadValues(buf)
					for _, v := range buf[:n] {
						cols[ci] = append(cols[ci], TripleOf(v))
					}
					if err == io.EOF {
						break
					}
					if err != nil {
						parquet.Release(p)
						pages.Close()
						return cols, fmt.Errorf("column %d: ReadValues: %w", ci, err)
					}
					if n == 0 {
						parquet.Release(p)
						pages.Close()
						return cols, fmt.Errorf("column %d: ReadValues returned 0 values and no error", ci)
					}
				}
				parquet.Release(p)
			}
			pages.Close()
		}
	}
	return cols, nil
}

// ReadRowsColumns reads all rows through Rows().ReadRows and splits them into per-column streams.
func ReadRowsColumns(file []byte, batch int, opts ...parquet.FileOption) (cols [][]Triple, nrows int, err error) {
	defer catch(&err)
	f, err := parquet.OpenFile(bytes.NewReader(file), int64(len(file)), opts...)
	if err != nil {
		return nil, 0, err
	}
	ncol := len(f.Schema().Columns())
	cols = make([][]Triple, ncol)
	for _, rg := range f.RowGroups() {
		rows := rg.Rows()
		buf := make([]parquet.Row, batch)
		for {
			n, err := rows.ReadRows(buf)
			for _, row := range buf[:n] {
				nrows++
				for _, v := range row {
					cols[v.Column()] = append(cols[v.Column()], TripleOf(v))
				}
			}
			if err == io.EOF {
				break
			}
			if err != nil {
				rows.Close()
				return cols, nrows, err
			}
			if n == 0 {
				rows.Close()
				return cols, nrows, fmt.Errorf("ReadRows returned 0 rows and no error")
			}
		}
		rows.Close()
	}
	return cols, nrows, nil
}
