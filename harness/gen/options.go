package gen

import (
	"fmt"
	"math/rand"

	"github.com/parquet-go/parquet-go"
	"github.com/parquet-go/parquet-go/compress"
)

// WriterCfg is a random writer configuration with a printable description.
type WriterCfg struct {
	Desc string
	Opts []parquet.WriterOption
	// pieces kept for oracles
	PageVersion   int
	Codec         string
	MaxRows       int64
	PageBuf       int
	DictMax       int64
	Stats         bool
	IndexLimit    int
	WriteBuf      int
}

var Codecs = map[string]compress.Codec{
	"none": &parquet.Uncompressed, "snappy": &parquet.Snappy, "gzip": &parquet.Gzip,
	"zstd": &parquet.Zstd, "brotli": &parquet.Brotli, "lz4": &parquet.Lz4Raw,
}
var CodecNames = []string{"none", "snappy", "gzip", "zstd", "brotli", "lz4"}

// PlainWriterCfg varies only the page version and the codec; every size limit keeps its default.
func PlainWriterCfg(r *rand.Rand) *WriterCfg {
	c := &WriterCfg{WriteBuf: -1}
	c.PageVersion = 1 + r.Intn(2)
	c.Opts = append(c.Opts, parquet.DataPageVersion(c.PageVersion))
	if r.Intn(2) == 0 {
		c.Codec = CodecNames[r.Intn(len(CodecNames))]
		c.Opts = append(c.Opts, parquet.Compression(Codecs[c.Codec]))
	}
	c.Desc = fmt.Sprintf("v%d codec=%s defaults", c.PageVersion, c.Codec)
	return c
}

func RandWriterCfg(r *rand.Rand) *WriterCfg {
	c := &WriterCfg{}
	c.PageVersion = 1 + r.Intn(2)
	c.Opts = append(c.Opts, parquet.DataPageVersion(c.PageVersion))
	c.Codec = ""
	if r.Intn(2) == 0 { // a file-wide codec (fields may still carry their own tag)
		c.Codec = CodecNames[r.Intn(len(CodecNames))]
		c.Opts = append(c.Opts, parquet.Compression(Codecs[c.Codec]))
	}
	switch r.Intn(4) {
	case 0:
		c.PageBuf = 1
	case 1:
		c.PageBuf = 16 + r.Intn(200)
	case 2:
		c.PageBuf = 1024 + r.Intn(4096)
	}
	if c.PageBuf > 0 {
		c.Opts = append(c.Opts, parquet.PageBufferSize(c.PageBuf))
	}
	switch r.Intn(4) {
	case 0:
		c.MaxRows = int64(1 + r.Intn(7))
	case 1:
		c.MaxRows = int64(8 + r.Intn(120))
	}
	if c.MaxRows > 0 {
		c.Opts = append(c.Opts, parquet.MaxRowsPerRowGroup(c.MaxRows))
	}
	if r.Intn(3) == 0 {
		c.DictMax = []int64{1, 16, 100}[r.Intn(3)]
		c.Opts = append(c.Opts, parquet.DictionaryMaxBytes(c.DictMax))
	}
	c.Stats = r.Intn(2) == 0
	if c.Stats {
		c.Opts = append(c.Opts, parquet.DataPageStatistics(true))
	}
	if r.Intn(3) == 0 {
		c.IndexLimit = 1 + r.Intn(20)
		lim := c.IndexLimit
		c.Opts = append(c.Opts, parquet.ColumnIndexSizeLimit(func([]string) int { return lim }))
	}
	if r.Intn(3) == 0 {
		c.WriteBuf = []int{0, 1, 100}[r.Intn(3)]
		c.Opts = append(c.Opts, parquet.WriteBufferSize(c.WriteBuf))
	} else {
		c.WriteBuf = -1
	}
	c.Desc = fmt.Sprintf("v%d codec=%s pagebuf=%d maxrows=%d dictmax=%d stats=%v indexlimit=%d writebuf=%d",
		c.PageVersion, c.Codec, c.PageBuf, c.MaxRows, c.DictMax, c.Stats, c.IndexLimit, c.WriteBuf)
	return c
}
