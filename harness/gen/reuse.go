package gen

import (
	"io"
	"reflect"
	"unsafe"

	"github.com/parquet-go/parquet-go"
)

// Reuser models a caller that owns ONE set of scratch rows and refills it before every Write
// call (the bufio.Scanner / pooled-record pattern): the rows handed to the writer live in memory
// that the caller overwrites as soon as Write has returned. Every slice backing array and every
// pointee is kept per scratch location and reused for the next batch, so that the value a field
// had in one call is overwritten in place by the value it has in the next call.
//
// A writer may not keep references into the rows it was given once Write has returned; whatever
// it needs later (dictionary keys, buffered values, statistics bounds) must be its own copy.
type Reuser struct {
	bufs map[unsafe.Pointer]reflect.Value // scratch location -> reusable slice (full capacity) or pointer
}

func NewReuser() *Reuser { return &Reuser{bufs: map[unsafe.Pointer]reflect.Value{}} }

func hasIndirection(t reflect.Type) bool {
	switch t.Kind() {
	case reflect.Slice, reflect.Ptr, reflect.Map, reflect.String, reflect.Interface:
		return true
	case reflect.Array:
		return hasIndirection(t.Elem())
	case reflect.Struct:
		for i := 0; i < t.NumField(); i++ {
			if hasIndirection(t.Field(i).Type) {
				return true
			}
		}
	}
	return false
}

func settableStruct(t reflect.Type) bool {
	for i := 0; i < t.NumField(); i++ {
		if !t.Field(i).IsExported() {
			return false
		}
	}
	return true
}

// CopyInto deep-copies src into the addressable scratch location dst, reusing the memory dst
// used the previous time.
func (ru *Reuser) CopyInto(dst, src reflect.Value) {
	switch src.Kind() {
	case reflect.Slice:
		if src.IsNil() {
			dst.Set(reflect.Zero(dst.Type()))
			return
		}
		key := dst.Addr().UnsafePointer()
		buf, ok := ru.bufs[key]
		if !ok || buf.Cap() < src.Len() {
			c := src.Len()
			if c < 8 {
				c = 8
			}
			buf = reflect.MakeSlice(src.Type(), c, c)
			ru.bufs[key] = buf
		}
		s := buf.Slice3(0, src.Len(), src.Len())
		if hasIndirection(src.Type().Elem()) {
			for i := 0; i < src.Len(); i++ {
				ru.CopyInto(buf.Index(i), src.Index(i))
			}
		} else {
			reflect.Copy(s, src)
		}
		dst.Set(s)
	case reflect.Ptr:
		if src.IsNil() {
			dst.Set(reflect.Zero(dst.Type()))
			return
		}
		key := dst.Addr().UnsafePointer()
		p, ok := ru.bufs[key]
		if !ok {
			p = reflect.New(src.Type().Elem())
			ru.bufs[key] = p
		}
		ru.CopyInto(p.Elem(), src.Elem())
		dst.Set(p)
	case reflect.Struct:
		if !settableStruct(src.Type()) {
			dst.Set(src) // time.Time and the like: values
			return
		}
		for i := 0; i < src.NumField(); i++ {
			ru.CopyInto(dst.Field(i), src.Field(i))
		}
	case reflect.Array:
		if !hasIndirection(src.Type().Elem()) {
			dst.Set(src)
			return
		}
		for i := 0; i < src.Len(); i++ {
			ru.CopyInto(dst.Index(i), src.Index(i))
		}
	case reflect.Map:
		if src.IsNil() {
			dst.Set(reflect.Zero(dst.Type()))
			return
		}
		m := reflect.MakeMapWithSize(src.Type(), src.Len())
		it := src.MapRange()
		for it.Next() {
			v := reflect.New(src.Type().Elem()).Elem()
			NewReuser().CopyInto(v, it.Value())
			m.SetMapIndex(it.Key(), v)
		}
		dst.Set(m)
	default:
		dst.Set(src)
	}
}

// Scribble overwrites every piece of scratch memory (what a caller returning its buffers to a
// pool does): bytes with 0xEE, everything else with zero values.
func (ru *Reuser) Scribble() {
	for _, b := range ru.bufs {
		if b.Kind() == reflect.Ptr {
			if !hasIndirection(b.Type().Elem()) {
				b.Elem().Set(reflect.Zero(b.Type().Elem()))
			}
			continue
		}
		if b.Type().Elem().Kind() == reflect.Uint8 {
			bs := b.Bytes()
			for i := range bs {
				bs[i] = 0xEE
			}
		} else if !hasIndirection(b.Type().Elem()) {
			z := reflect.Zero(b.Type().Elem())
			for i := 0; i < b.Len(); i++ {
				b.Index(i).Set(z)
			}
		}
	}
}

// WriteGenericReuse is WriteGeneric by a caller that refills one scratch []T before every Write
// call (see Reuser) and wipes it before Close.
func (e *Entry) WriteGenericReuse(w io.Writer, rows reflect.Value, batches []int, opts ...parquet.WriterOption) (err error) {
	defer catch(&err)
	gw := e.NewTypedWriter(w, opts...)
	ru := NewReuser()
	scratch := e.NewRows(0)
	off, n := 0, rows.Len()
	write := func(b int) error {
		if b > n-off {
			b = n - off
		}
		if b <= 0 {
			return nil
		}
		if scratch.Len() < b { // a longer batch than any before: the caller grows its scratch once
			ns := e.NewRows(b)
			scratch = ns
		}
		for i := 0; i < b; i++ {
			ru.CopyInto(scratch.Index(i), rows.Index(off+i))
		}
		off += b
		_, err := gw.Write(scratch.Slice(0, b).Interface())
		return err
	}
	for _, b := range batches {
		if b == 0 {
			if err := gw.Flush(); err != nil {
				return err
			}
			continue
		}
		if err := write(b); err != nil {
			return err
		}
	}
	if err := write(n - off); err != nil {
		return err
	}
	ru.Scribble()
	return gw.Close()
}

// WriteReflectReuse is WriteReflect (Writer.Write(any), one row per call) from one scratch row.
func (e *Entry) WriteReflectReuse(w io.Writer, rows reflect.Value, opts ...parquet.WriterOption) (err error) {
	defer catch(&err)
	pw := parquet.NewWriter(w, append([]parquet.WriterOption{e.Schema}, opts...)...)
	ru := NewReuser()
	scratch := e.NewRows(1)
	for i := 0; i < rows.Len(); i++ {
		ru.CopyInto(scratch.Index(0), rows.Index(i))
		if err := pw.Write(scratch.Index(0).Addr().Interface()); err != nil {
			return err
		}
	}
	ru.Scribble()
	return pw.Close()
}
