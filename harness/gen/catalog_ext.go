package gen

import "time"

// Hand-written catalogue types of round 3: the leaf kinds and wrappers of the documented tags that
// the generated catalogue does not reach. Every leaf kind with a null-index kernel of its own
// (8/16-bit and native-width integers) sits on an optional NON-pointer field at the top level,
// below a pointer and below a slice; leaves whose Go type and column type differ (int(64)/uint(64)
// widening, time.Time onto TIMESTAMP/DATE, uuid text onto FIXED_LEN_BYTE_ARRAY(16), []byte decimal)
// sit on required, optional and pointer fields; optional list elements (parquet-element) and
// optional maps (nil vs empty non-nil) are in the wrapper set.

type H006In struct {
	A uint8  `parquet:"a,optional"`
	B uint16 `parquet:"b,optional"`
	C int8   `parquet:"c,optional"`
	D int16  `parquet:"d,optional"`
}

type H006 struct {
	A  uint8    `parquet:"a,optional"`
	B  uint16   `parquet:"b,optional"`
	C  int8     `parquet:"c,optional"`
	D  int16    `parquet:"d,optional"`
	E  uint32   `parquet:"e,optional"`
	F  uint64   `parquet:"f,optional"`
	G  int      `parquet:"g,optional"`
	H  uint     `parquet:"h,optional"`
	In *H006In  `parquet:"in"`
	L  []H006In `parquet:"l"`
	PB *uint16  `parquet:"pb"`
	RB []uint16 `parquet:"rb"`
	LD []int16  `parquet:"ld,list"`
}

// integer tags that change the column width
type H007In struct {
	U uint32 `parquet:"u,optional,uint(64)"`
	I int16  `parquet:"i,int(64)"`
}

type H007 struct {
	A  uint32   `parquet:"a,uint(64)"`
	B  int32    `parquet:"b,int(64)"`
	C  uint16   `parquet:"c,uint(32)"`
	D  int8     `parquet:"d,optional,int(32)"`
	E  *uint32  `parquet:"e,uint(64)"`
	F  uint32   `parquet:"f,optional,uint(64)"`
	G  uint8    `parquet:"g,uint(64)"`
	In *H007In  `parquet:"in"`
	L  []H007In `parquet:"l,list"`
}

// time.Time on TIMESTAMP (three units) and DATE columns, int32/int64 with the time tags
type H008In struct {
	T time.Time `parquet:"t,optional"`
	N int32     `parquet:"n"`
}

type H008 struct {
	A  time.Time   `parquet:"a"`
	B  time.Time   `parquet:"b,optional"`
	C  time.Time   `parquet:"c,timestamp(millisecond)"`
	D  time.Time   `parquet:"d,optional,timestamp(microsecond)"`
	E  *time.Time  `parquet:"e,timestamp(millisecond)"`
	F  time.Time   `parquet:"f,date"`
	G  *time.Time  `parquet:"g,date"`
	In *H008In     `parquet:"in"`
	L  []H008In    `parquet:"l"`
	TS []time.Time `parquet:"ts"`
	TM int32       `parquet:"tm,time(millisecond)"`
	TU int64       `parquet:"tu,optional,time(microsecond)"`
	DT int32       `parquet:"dt,optional,date"`
}

// decimal, enum, uuid text, json text, bytes/string logical type overrides
type H009 struct {
	A int32    `parquet:"a,decimal(2:9)"`
	B int64    `parquet:"b,optional,decimal(3:18)"`
	C [4]byte  `parquet:"c,decimal(2:9)"`
	D []byte   `parquet:"d,decimal(2:9)"`
	E string   `parquet:"e,enum"`
	F string   `parquet:"f,optional,enum"`
	G string   `parquet:"g,uuid"`
	H string   `parquet:"h,json"`
	I string   `parquet:"i,optional,json"`
	J string   `parquet:"j,bytes"`
	K []byte   `parquet:"k,optional,string"`
	L *int64   `parquet:"l,decimal(0:18)"`
	M []string `parquet:"m,list" parquet-element:",enum"`
}

// optional list elements (parquet-element) and `optional` on a bare slice (applies to the elements)
type H011In struct {
	X int32  `parquet:"x"`
	Y string `parquet:"y,optional"`
}

type H011 struct {
	A []int32  `parquet:"a,list" parquet-element:",optional"`
	B []string `parquet:"b,optional,list" parquet-element:",optional"`
	C []int64  `parquet:"c,optional"`
	D []H011In `parquet:"d,list"`
	E int32    `parquet:"e"`
}

// optional maps: nil (null) vs empty non-nil (present, no entries) vs populated, at the top
// level, below a pointer and below a slice; map values that are optional themselves
type H010In struct {
	M map[string]int32 `parquet:"m,optional"`
	N int32            `parquet:"n"`
}

type H010 struct {
	ID int64             `parquet:"id"`
	M  map[string]int64  `parquet:"m,optional"`
	R  map[string]string `parquet:"r"`
	In *H010In           `parquet:"in"`
	L  []H010In          `parquet:"l"`
	MO map[string]*int64 `parquet:"mo,optional"`
}

// optional NON-pointer structs (round 4): the `optional` tag is documented for "any type"; the zero
// value of the struct is the null of the field (like the zero value of every other non-pointer
// optional field), any other value is present. At the top level, nested in each other, below a
// pointer and below a slice and a list; with wrappers inside (optional leaf, pointer, slices) so
// that a null run of the bitmap scan hands zero values to every kind of inner writer. No floats
// inside (-0.0 is not the zero value but compares equal to it: kept out of the struct-zero test).
type H014Leafs struct {
	X int32  `parquet:"x"`
	Y string `parquet:"y,optional"`
}

type H014Deep struct {
	P  *int64    `parquet:"p"`
	R  []int32   `parquet:"r"`
	L  []string  `parquet:"l,list"`
	In H014Leafs `parquet:"in,optional"`
	B  []byte    `parquet:"b,optional"`
}

type H014In struct {
	S H014Leafs `parquet:"s,optional"`
	N int32     `parquet:"n"`
}

type H014 struct {
	A  H014Leafs `parquet:"a,optional"`
	B  H014Deep  `parquet:"b,optional"`
	In *H014In   `parquet:"in"`
	L  []H014In  `parquet:"l"`
	LL []H014In  `parquet:"ll,list"`
	E  int32     `parquet:"e"`
}

// a map whose VALUES carry the optional tag on a non-pointer Go type (parquet-value:",optional"):
// the zero value is the null of the entry, any other value is present. C03 only.
type H015 struct {
	ID int64            `parquet:"id"`
	M  map[string]int32 `parquet:"m" parquet-value:",optional"`
}

// Round 5: whether a non-pointer value on an optional node gets the optional wrapper of the typed
// path is decided per Go kind at three sites (struct field, list element, map value: pointer /
// interface / []byte vs other slices / JSON text on a JSON column / everything else). The struct
// field site is covered by the whole catalogue; H017 puts every leaf kind of the null-index
// dispatch (and a struct) on an optional MAP VALUE, H018 on an optional LIST ELEMENT, at the top
// level, in an optional map / optional list, below a pointer and below a slice. C03 only.
type H017V struct {
	X int32  `parquet:"x"`
	Y string `parquet:"y,optional"`
}

type H017In struct {
	B map[string][]byte `parquet:"b" parquet-value:",optional"`
	S map[string]string `parquet:"s,optional" parquet-value:",optional"`
	N int32             `parquet:"n"`
}

type H017 struct {
	ID int64                `parquet:"id"`
	B  map[string][]byte    `parquet:"b" parquet-value:",optional"`
	S  map[string]string    `parquet:"s" parquet-value:",optional"`
	F  map[string][5]byte   `parquet:"f" parquet-value:",optional"`
	O  map[string]bool      `parquet:"o" parquet-value:",optional"`
	I8 map[string]int8      `parquet:"i8" parquet-value:",optional"`
	U6 map[string]uint16    `parquet:"u6" parquet-value:",optional"`
	U3 map[string]uint32    `parquet:"u3" parquet-value:",optional"`
	L  map[string]int64     `parquet:"l" parquet-value:",optional"`
	G  map[string]float32   `parquet:"g" parquet-value:",optional"`
	D  map[string]float64   `parquet:"d" parquet-value:",optional"`
	J  map[string]string    `parquet:"j" parquet-value:",optional,json"`
	JB map[string][]byte    `parquet:"jb" parquet-value:",optional,json"`
	BS map[string][]byte    `parquet:"bs" parquet-value:",optional,string"`
	ST map[string]H017V     `parquet:"st" parquet-value:",optional"`
	W  map[string][]byte    `parquet:"w,optional" parquet-value:",optional"`
	In *H017In              `parquet:"in"`
	LI []H017In             `parquet:"li"`
}

// time.Time map values (optional and required) are kept in a type of their own: files holding
// them are written correctly by every path, but no reader API gives them back (reconstructFuncOfMap
// builds its leaf reader from the int64 key-value type of the schema node: panic "reflect.Set:
// value of type int64 is not assignable to type time.Time"). Reported in round 5; until it is
// repaired or filed, the read-back of this type is an observation (Entry.OpenReadBack), the
// stream oracles of C03 apply in full. Same root cause, NOT in the catalogue (it fails the stream
// oracle on the six reflection paths; repro/C03/round5_map_list_shapes_test.go.txt): a unit tag on
// the value (parquet-value:",timestamp(millisecond)") is honoured by the typed path only, the
// reflection paths store nanoseconds in the millisecond column.
type H019 struct {
	ID int64                `parquet:"id"`
	T  map[string]time.Time `parquet:"t" parquet-value:",optional"`
	R  map[string]time.Time `parquet:"r"`
}

type H018In struct {
	B [][]byte `parquet:"b,list" parquet-element:",optional"`
	N int32    `parquet:"n"`
}

type H018 struct {
	B  [][]byte    `parquet:"b,list" parquet-element:",optional"`
	F  [][5]byte   `parquet:"f,list" parquet-element:",optional"`
	O  []bool      `parquet:"o,list" parquet-element:",optional"`
	I8 []int8      `parquet:"i8,list" parquet-element:",optional"`
	U6 []uint16    `parquet:"u6,list" parquet-element:",optional"`
	L  []int64     `parquet:"l,list" parquet-element:",optional"`
	G  []float32   `parquet:"g,list" parquet-element:",optional"`
	D  []float64   `parquet:"d,list" parquet-element:",optional"`
	T  []time.Time `parquet:"t,list" parquet-element:",optional"`
	J  []string    `parquet:"j,list" parquet-element:",optional,json"`
	JB [][]byte    `parquet:"jb,list" parquet-element:",optional,json"`
	BS [][]byte    `parquet:"bs,list" parquet-element:",optional,string"`
	ST []H017V     `parquet:"st,list" parquet-element:",optional"`
	OB [][]byte    `parquet:"ob,optional,list" parquet-element:",optional"`
	In *H018In     `parquet:"in"`
	LI []H018In    `parquet:"li"`
	E  int32       `parquet:"e"`
}

// MapValueOptCatalog: map types with optional non-pointer values (C03 only; not in MapCatalog).
var MapValueOptCatalog []*Entry

func init() {
	if e := entryOf[H015]("H015"); e != nil {
		e.HasMap = true
		e.Shape = "optional-nonpointer-map-value"
		MapValueOptCatalog = append(MapValueOptCatalog, e)
	}
	if e := entryOf[H017]("H017"); e != nil {
		e.HasMap = true
		e.Shape = "optional-nonpointer-map-value"
		MapValueOptCatalog = append(MapValueOptCatalog, e)
	}
	if e := entryOf[H019]("H019"); e != nil {
		e.HasMap = true
		e.Shape = "time-map-value"
		e.OpenReadBack = "map-of-time-values-cannot-be-read-back"
		MapValueOptCatalog = append(MapValueOptCatalog, e)
	}
}

// shapes SchemaOf accepts that no documented tag describes: a pointer to a pointer, a slice of
// pointers without the list tag. What the ingestion paths do with them is recorded as an
// observation (they are not "Go struct types expressible with the documented tags").
type H012 struct {
	P **int32 `parquet:"p"`
}

type H013 struct {
	M []*int32 `parquet:"m"`
}

// fixed-size byte arrays of lengths on both sides of 16 and 32 bytes (where the
// FIXED_LEN_BYTE_ARRAY encoders, decoders, dictionaries and bounds kernels switch code paths), under
// every value encoding, required / optional / pointer / repeated / inside a repeated group
type H016In struct {
	D [20]byte `parquet:"d,delta"`
	O [33]byte `parquet:"o,optional,split"`
}

type H016 struct {
	A  [1]byte    `parquet:"a"`
	B  [15]byte   `parquet:"b,delta"`
	C  [17]byte   `parquet:"c,delta"`
	D  [32]byte   `parquet:"d,delta"`
	E  [20]byte   `parquet:"e,dict"`
	F  [32]byte   `parquet:"f,split"`
	G  [17]byte   `parquet:"g,optional"`
	H  *[33]byte  `parquet:"h"`
	L  [][20]byte `parquet:"l"`
	In []H016In   `parquet:"in"`
}

// OddCatalog: undocumented shapes (observations only).
var OddCatalog []*Entry

func init() {
	for _, e := range []*Entry{entryOf[H012]("H012"), entryOf[H013]("H013")} {
		if e != nil {
			OddCatalog = append(OddCatalog, e)
		}
	}
}

// ExtCatalog: the round-3 types (also members of Catalog unless noted).
var ExtCatalog []*Entry

func init() {
	for _, e := range []*Entry{
		entryOf[H006]("H006"), entryOf[H007]("H007"), entryOf[H008]("H008"),
		entryOf[H009]("H009"), entryOf[H011]("H011"), entryOf[H016]("H016"),
	} {
		if e != nil {
			ExtCatalog = append(ExtCatalog, e)
			register(e) // members of the shared catalogue too
		}
	}
	// round 4: C03 only (not registered in the shared catalogue)
	if e := entryOf[H014]("H014"); e != nil {
		ExtCatalog = append(ExtCatalog, e)
	}
	// round 5: C03 only
	if e := entryOf[H018]("H018"); e != nil {
		ExtCatalog = append(ExtCatalog, e)
	}
	if e := entryOf[H010]("H010"); e != nil {
		e.HasMap = true
		MapCatalog = append(MapCatalog, e)
	}
}
