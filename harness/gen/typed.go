package gen

import (
	"io"
	"sort"

	"github.com/parquet-go/parquet-go"
)

// StatefulWriter is a handle on a GenericWriter[T] or SortingWriter[T] of a catalogue type, for
// checks that drive a writer instance through a history of calls (Write/Flush/Close/Reset).
// Row slices travel as `any` holding a []T.
type StatefulWriter interface {
	Write(rows any) (int, error)
	Flush() error
	Close() error
	Reset(w io.Writer)
	SetKeyValueMetadata(key, value string)
	// WriteRowGroup is not available on sorting writers (returns ErrNoRowGroupWrite)
	WriteRowGroup(rg parquet.RowGroup) (int64, error)
}

// StatefulBuffer is a handle on a GenericBuffer[T].
type StatefulBuffer interface {
	parquet.RowGroup
	sort.Interface
	Write(rows any) (int, error)
	Reset()
}

type typedGenericWriter[T any] struct{ *parquet.GenericWriter[T] }

func (w typedGenericWriter[T]) Write(rows any) (int, error) {
	return w.GenericWriter.Write(rows.([]T))
}

type typedSortingWriter[T any] struct{ *parquet.SortingWriter[T] }

func (w typedSortingWriter[T]) Write(rows any) (int, error) {
	return w.SortingWriter.Write(rows.([]T))
}

type errNoRowGroupWrite struct{}

func (errNoRowGroupWrite) Error() string { return "sorting writers have no WriteRowGroup" }

func (w typedSortingWriter[T]) WriteRowGroup(parquet.RowGroup) (int64, error) {
	return 0, errNoRowGroupWrite{}
}

type c17TypedBuffer[T any] struct{ *parquet.GenericBuffer[T] }

func (b c17TypedBuffer[T]) Write(rows any) (int, error) { return b.GenericBuffer.Write(rows.([]T)) }

// typedExt fills the instance-handle constructors of an entry (called from entryOf).
func typedExt[T any](e *Entry) {
	e.NewTypedWriter = func(w io.Writer, opts ...parquet.WriterOption) StatefulWriter {
		return typedGenericWriter[T]{parquet.NewGenericWriter[T](w, opts...)}
	}
	e.NewTypedSortingWriter = func(w io.Writer, sortRowCount int64, opts ...parquet.WriterOption) StatefulWriter {
		return typedSortingWriter[T]{parquet.NewSortingWriter[T](w, sortRowCount, opts...)}
	}
	e.NewTypedBuffer = func(opts ...parquet.RowGroupOption) StatefulBuffer {
		return c17TypedBuffer[T]{parquet.NewGenericBuffer[T](opts...)}
	}
	e.NewRowBufferOf = func(rows any, opts ...parquet.RowGroupOption) (rg parquet.RowGroup, err error) {
		defer catch(&err)
		rb := parquet.NewRowBuffer[T](opts...)
		if rs := rows.([]T); len(rs) > 0 {
			if _, err := rb.Write(rs); err != nil {
				return nil, err
			}
		}
		return rb, nil
	}
}
