// Typed reader/writer/buffer handles over the catalogue types for history-style checks (C16):
// the generic APIs need the static type parameter, everything else goes through reflection.
// The instantiation list at the bottom mirrors catalog_gen.go (types T000..T047); a type missing
// here is simply not exercised through the typed history path.
package gen

import (
	"io"
	"sort"

	"github.com/parquet-go/parquet-go"
)

// TypedReader wraps a GenericReader[T].
type TypedReader interface {
	// Read allocates a []T of length n, reads into it and returns the filled prefix.
	Read(n int) (batch any, got int, err error)
	// NewBatch allocates a []T of length n; ReadInto reads into a caller-owned (reused) []T.
	NewBatch(n int) any
	ReadInto(batch any) (got int, err error)
	Reset()
	ReadRows(rows []parquet.Row) (int, error)
	SeekToRow(int64) error
	NumRows() int64
	Close() error
}

// TypedWriter wraps a GenericWriter[T]; rows is a []T.
type TypedWriter interface {
	Write(rows any) (int, error)
	Flush() error
	Close() error
}

// TypedBuffer wraps a GenericBuffer[T]; rows is a []T.
type TypedBuffer interface {
	Write(rows any) (int, error)
	Sort()
	Len() int
	RowGroup() parquet.RowGroup
}

type Typed struct {
	NewReader func(r io.ReaderAt, opts ...parquet.ReaderOption) (TypedReader, error)
	NewWriter func(w io.Writer, opts ...parquet.WriterOption) (TypedWriter, error)
	NewBuffer func(opts ...parquet.RowGroupOption) (TypedBuffer, error)
}

var TypedByName = map[string]*Typed{}

type typedReader[T any] struct{ r *parquet.GenericReader[T] }

func (t typedReader[T]) Read(n int) (batch any, got int, err error) {
	defer catch(&err)
	buf := make([]T, n)
	got, err = t.r.Read(buf)
	return buf[:got], got, err
}
func (t typedReader[T]) NewBatch(n int) any { return make([]T, n) }
func (t typedReader[T]) ReadInto(batch any) (got int, err error) {
	defer catch(&err)
	return t.r.Read(batch.([]T))
}
func (t typedReader[T]) Reset() {
	defer func() { recover() }()
	t.r.Reset()
}
func (t typedReader[T]) ReadRows(rows []parquet.Row) (n int, err error) {
	defer catch(&err)
	return t.r.ReadRows(rows)
}
func (t typedReader[T]) SeekToRow(i int64) (err error) { defer catch(&err); return t.r.SeekToRow(i) }
func (t typedReader[T]) NumRows() int64                { return t.r.NumRows() }
func (t typedReader[T]) Close() (err error)            { defer catch(&err); return t.r.Close() }

type typedWriter[T any] struct{ w *parquet.GenericWriter[T] }

func (t typedWriter[T]) Write(rows any) (n int, err error) {
	defer catch(&err)
	return t.w.Write(rows.([]T))
}
func (t typedWriter[T]) Flush() (err error) { defer catch(&err); return t.w.Flush() }
func (t typedWriter[T]) Close() (err error) { defer catch(&err); return t.w.Close() }

type typedBuffer[T any] struct{ b *parquet.GenericBuffer[T] }

func (t typedBuffer[T]) Write(rows any) (n int, err error) {
	defer catch(&err)
	return t.b.Write(rows.([]T))
}
func (t typedBuffer[T]) Sort()                      { sort.Sort(t.b) }
func (t typedBuffer[T]) Len() int                   { return t.b.Len() }
func (t typedBuffer[T]) RowGroup() parquet.RowGroup { return t.b }

func typedOf[T any](name string) {
	TypedByName[name] = &Typed{
		NewReader: func(r io.ReaderAt, opts ...parquet.ReaderOption) (tr TypedReader, err error) {
			defer catch(&err)
			return typedReader[T]{parquet.NewGenericReader[T](r, opts...)}, nil
		},
		NewWriter: func(w io.Writer, opts ...parquet.WriterOption) (tw TypedWriter, err error) {
			defer catch(&err)
			return typedWriter[T]{parquet.NewGenericWriter[T](w, opts...)}, nil
		},
		NewBuffer: func(opts ...parquet.RowGroupOption) (tb TypedBuffer, err error) {
			defer catch(&err)
			return typedBuffer[T]{parquet.NewGenericBuffer[T](opts...)}, nil
		},
	}
}

func init() {
	typedOf[T000]("T000")
	typedOf[T001]("T001")
	typedOf[T002]("T002")
	typedOf[T003]("T003")
	typedOf[T004]("T004")
	typedOf[T005]("T005")
	typedOf[T006]("T006")
	typedOf[T007]("T007")
	typedOf[T008]("T008")
	typedOf[T009]("T009")
	typedOf[T010]("T010")
	typedOf[T011]("T011")
	typedOf[T012]("T012")
	typedOf[T013]("T013")
	typedOf[T014]("T014")
	typedOf[T015]("T015")
	typedOf[T016]("T016")
	typedOf[T017]("T017")
	typedOf[T018]("T018")
	typedOf[T019]("T019")
	typedOf[T020]("T020")
	typedOf[T021]("T021")
	typedOf[T022]("T022")
	typedOf[T023]("T023")
	typedOf[T024]("T024")
	typedOf[T025]("T025")
	typedOf[T026]("T026")
	typedOf[T027]("T027")
	typedOf[T028]("T028")
	typedOf[T029]("T029")
	typedOf[T030]("T030")
	typedOf[T031]("T031")
	typedOf[T032]("T032")
	typedOf[T033]("T033")
	typedOf[T034]("T034")
	typedOf[T035]("T035")
	typedOf[T036]("T036")
	typedOf[T037]("T037")
	typedOf[T038]("T038")
	typedOf[T039]("T039")
	typedOf[T040]("T040")
	typedOf[T041]("T041")
	typedOf[T042]("T042")
	typedOf[T043]("T043")
	typedOf[T044]("T044")
	typedOf[T045]("T045")
	typedOf[T046]("T046")
	typedOf[T047]("T047")
}
