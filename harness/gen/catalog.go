// Package gen holds the shared generators: the catalogue of Go struct types, random values,
// the harness-side reference shredder (documented Go -> Dremel mapping) and file read-back.
package gen

import (
	"bytes"
	"fmt"
	"io"
	"reflect"
	"sort"

	"github.com/parquet-go/parquet-go"
)

// Entry is one Go struct type of the catalogue with closures over the generic (typed) APIs,
// which need the static type parameter. Row slices travel as `any` holding a []T.
type Entry struct {
	Name   string
	Type   reflect.Type
	Schema *parquet.Schema
	HasMap bool // contains Go maps: entry order is unspecified, compare values not streams
	Shape  string // set for types that stand for one particular field shape: part of the failure keys
	// OpenReadBack: set for a shape whose files no reader API can give back as Go values (a
	// recorded defect, see known_findings.json): errors of Reconstruct / Read[T] are reported
	// as L1 failures under this key prefix; every other oracle applies in full.
	OpenReadBack string

	// GenericWriter[T]: batches gives the number of rows per Write call (0 = Flush), the rest in one call
	WriteGeneric func(w io.Writer, rows any, batches []int, opts ...parquet.WriterOption) error
	// Writer.Write(any) row by row (reflection path)
	WriteReflect func(w io.Writer, rows any, opts ...parquet.WriterOption) error
	// GenericBuffer[T].Write then WriteRowGroup into a writer
	WriteGenericBuffer func(w io.Writer, rows any, batches []int, opts ...parquet.WriterOption) error
	// Buffer.Write(any) then WriteRowGroup
	WriteBuffer func(w io.Writer, rows any, opts ...parquet.WriterOption) error
	// RowBuffer[T].Write then WriteRowGroup
	WriteRowBuffer func(w io.Writer, rows any, opts ...parquet.WriterOption) error
	// Schema.Deconstruct then Writer.WriteRows
	WriteRows func(w io.Writer, rows any, opts ...parquet.WriterOption) error
	// parquet.Read[T]
	ReadAll func(r io.ReaderAt, size int64, opts ...parquet.ReaderOption) (any, error)
	// GenericReader[T].Read with the given batch size
	ReadGeneric func(r io.ReaderAt, batch int, opts ...parquet.ReaderOption) (any, error)
	// Schema.Reconstruct(Deconstruct(v)) for every row
	Reconstruct func(rows any) (any, error)
	// NewBuffer for sorting etc.
	NewGenericBuffer func(rows any, opts ...parquet.RowGroupOption) (parquet.RowGroup, error)
	// instance handles for histories of calls on one writer / buffer (typed.go)
	NewTypedWriter        func(w io.Writer, opts ...parquet.WriterOption) StatefulWriter
	NewTypedSortingWriter func(w io.Writer, sortRowCount int64, opts ...parquet.WriterOption) StatefulWriter
	NewTypedBuffer        func(opts ...parquet.RowGroupOption) StatefulBuffer
	// RowBuffer[T] holding the rows (reuse.go / typed.go)
	NewRowBufferOf func(rows any, opts ...parquet.RowGroupOption) (parquet.RowGroup, error)
}

var Catalog []*Entry
var Skipped = map[string]string{} // types the library rejects (SchemaOf panics)

func register(e *Entry) {
	if e != nil {
		Catalog = append(Catalog, e)
		sort.Slice(Catalog, func(i, j int) bool { return Catalog[i].Name < Catalog[j].Name })
	}
}

func ByName(name string) *Entry {
	for _, e := range Catalog {
		if e.Name == name {
			return e
		}
	}
	return nil
}

func catch(err *error) {
	if r := recover(); r != nil {
		*err = fmt.Errorf("PANIC: %v", r)
	}
}

func entryOf[T any](name string) (e *Entry) {
	defer func() {
		if r := recover(); r != nil {
			Skipped[name] = fmt.Sprint(r)
			e = nil
		}
	}()
	var zero T
	schema := parquet.SchemaOf(zero)
	e = &Entry{Name: name, Type: reflect.TypeOf(zero), Schema: schema}
	e.WriteGeneric = func(w io.Writer, rows any, batches []int, opts ...parquet.WriterOption) (err error) {
		defer catch(&err)
		rs := rows.([]T)
		gw := parquet.NewGenericWriter[T](w, opts...)
		for _, b := range batches {
			if b == 0 {
				if err := gw.Flush(); err != nil {
					return err
				}
				continue
			}
			if b > len(rs) {
				b = len(rs)
			}
			if b > 0 {
				if _, err := gw.Write(rs[:b]); err != nil {
					return err
				}
			}
			rs = rs[b:]
		}
		if len(rs) > 0 {
			if _, err := gw.Write(rs); err != nil {
				return err
			}
		}
		return gw.Close()
	}
	e.WriteReflect = func(w io.Writer, rows any, opts ...parquet.WriterOption) (err error) {
		defer catch(&err)
		pw := parquet.NewWriter(w, append([]parquet.WriterOption{schema}, opts...)...)
		for i := range rows.([]T) {
			if err := pw.Write(&rows.([]T)[i]); err != nil {
				return err
			}
		}
		return pw.Close()
	}
	e.WriteGenericBuffer = func(w io.Writer, rows any, batches []int, opts ...parquet.WriterOption) (err error) {
		defer catch(&err)
		rs := rows.([]T)
		buf := parquet.NewGenericBuffer[T]()
		for _, b := range batches {
			if b > len(rs) {
				b = len(rs)
			}
			if b > 0 {
				if _, err := buf.Write(rs[:b]); err != nil {
					return err
				}
			}
			rs = rs[b:]
		}
		if len(rs) > 0 {
			if _, err := buf.Write(rs); err != nil {
				return err
			}
		}
		pw := parquet.NewGenericWriter[T](w, opts...)
		if _, err := pw.WriteRowGroup(buf); err != nil {
			return err
		}
		return pw.Close()
	}
	e.WriteBuffer = func(w io.Writer, rows any, opts ...parquet.WriterOption) (err error) {
		defer catch(&err)
		buf := parquet.NewBuffer(schema)
		for i := range rows.([]T) {
			if err := buf.Write(&rows.([]T)[i]); err != nil {
				return err
			}
		}
		pw := parquet.NewWriter(w, append([]parquet.WriterOption{schema}, opts...)...)
		if _, err := pw.WriteRowGroup(buf); err != nil {
			return err
		}
		return pw.Close()
	}
	e.WriteRowBuffer = func(w io.Writer, rows any, opts ...parquet.WriterOption) (err error) {
		defer catch(&err)
		buf := parquet.NewRowBuffer[T]()
		if _, err := buf.Write(rows.([]T)); err != nil {
			return err
		}
		pw := parquet.NewWriter(w, append([]parquet.WriterOption{schema}, opts...)...)
		if _, err := pw.WriteRowGroup(buf); err != nil {
			return err
		}
		return pw.Close()
	}
	e.WriteRows = func(w io.Writer, rows any, opts ...parquet.WriterOption) (err error) {
		defer catch(&err)
		pw := parquet.NewWriter(w, append([]parquet.WriterOption{schema}, opts...)...)
		var prs []parquet.Row
		for i := range rows.([]T) {
			prs = append(prs, schema.Deconstruct(nil, &rows.([]T)[i]))
		}
		if len(prs) > 0 {
			if _, err := pw.WriteRows(prs); err != nil {
				return err
			}
		}
		return pw.Close()
	}
	e.ReadAll = func(r io.ReaderAt, size int64, opts ...parquet.ReaderOption) (out any, err error) {
		defer catch(&err)
		rs, err := parquet.Read[T](r, size, opts...)
		return rs, err
	}
	e.ReadGeneric = func(r io.ReaderAt, batch int, opts ...parquet.ReaderOption) (out any, err error) {
		defer catch(&err)
		gr := parquet.NewGenericReader[T](r, opts...)
		defer gr.Close()
		var all []T
		for {
			buf := make([]T, batch)
			n, err := gr.Read(buf)
			all = append(all, buf[:n]...)
			if err == io.EOF {
				return all, nil
			}
			if err != nil {
				return all, err
			}
			if n == 0 {
				return all, fmt.Errorf("GenericReader.Read returned 0 rows and no error")
			}
		}
	}
	e.Reconstruct = func(rows any) (out any, err error) {
		defer catch(&err)
		rs := rows.([]T)
		res := make([]T, len(rs))
		for i := range rs {
			row := schema.Deconstruct(nil, &rs[i])
			if err := schema.Reconstruct(&res[i], row); err != nil {
				return res, err
			}
		}
		return res, nil
	}
	e.NewGenericBuffer = func(rows any, opts ...parquet.RowGroupOption) (rg parquet.RowGroup, err error) {
		defer catch(&err)
		buf := parquet.NewGenericBuffer[T](opts...)
		if rs := rows.([]T); len(rs) > 0 {
			if _, err := buf.Write(rs); err != nil {
				return nil, err
			}
		}
		return buf, nil
	}
	typedExt[T](e)
	return e
}

// NewRows makes a []T of n zero rows for the entry.
func (e *Entry) NewRows(n int) reflect.Value {
	return reflect.MakeSlice(reflect.SliceOf(e.Type), n, n)
}

// BytesReaderAt adapts a byte slice.
func BytesReaderAt(b []byte) *bytes.Reader { return bytes.NewReader(b) }
