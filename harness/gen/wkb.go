package gen

import (
	"encoding/binary"
	"math"
	"math/rand"
)

// Well-known-binary geometries for GEOMETRY / GEOGRAPHY columns ([]byte fields with the
// `geometry(...)` / `geography(...)` tag). The writer keeps per-chunk geospatial statistics for such
// columns (bounding box over X/Y and, when present, Z and M; the set of geometry type codes), so
// the values that matter are the coordinate LAYOUTS (XY, XYZ, XYM, XYZM: ISO type codes +1000 /
// +2000 / +3000), empty geometries (typed but without extent), NaN coordinates and byte strings
// that are not WKB at all (they suppress the statistics of the chunk).
//
// A Profile draws its layouts once (geoLayouts): a row set then has, e.g., XY and XYM values only,
// so that different row sets written through one writer differ in which dimensions they have.
// SmallDomain profiles hold plain XY points and line strings only.

const (
	wkbXY = iota
	wkbXYZ
	wkbXYM
	wkbXYZM
)

func (p *Profile) wkbLayouts(r *rand.Rand) []int {
	if p.geoLayouts == nil {
		switch {
		case p.SmallDomain:
			p.geoLayouts = []int{wkbXY}
		default:
			sets := [][]int{{wkbXY}, {wkbXYZ}, {wkbXYM}, {wkbXYZM}, {wkbXY, wkbXYM}, {wkbXY, wkbXYZ}, {wkbXYZ, wkbXYM}, {wkbXY, wkbXYZ, wkbXYM, wkbXYZM}}
			p.geoLayouts = sets[r.Intn(len(sets))]
			p.geoInvalid = r.Intn(8) == 0
		}
	}
	return p.geoLayouts
}

var wkbCoordPool = []float64{0, 1, -1, 180, -180, 90, -90, 1e9, -1e9, 0.5, math.Copysign(0, -1), math.Inf(1), math.Inf(-1)}

func wkbCoord(r *rand.Rand, p *Profile) float64 {
	switch {
	case p.SmallDomain:
		return float64(r.Intn(5)) - 2
	case r.Intn(3) == 0:
		return wkbCoordPool[r.Intn(len(wkbCoordPool))]
	case r.Intn(40) == 0:
		return math.NaN()
	default:
		return math.Round(r.NormFloat64()*1e4) / 100
	}
}

func randWKB(r *rand.Rand, p *Profile) []byte {
	layouts := p.wkbLayouts(r)
	if p.geoInvalid && r.Intn(6) == 0 { // not WKB: truncated header / unknown byte order / text
		return [][]byte{{}, {1}, {1, 1, 0, 0}, {7, 1, 0, 0, 0}, []byte("POINT (1 2)")}[r.Intn(5)]
	}
	layout := layouts[r.Intn(len(layouts))]
	dims := []int{2, 3, 3, 4}[layout]
	kind := uint32(1) // point
	npts := 1
	if r.Intn(3) == 0 {
		kind = 2 // line string, 0 points = LINESTRING EMPTY
		npts = []int{0, 1, 2, 3, 5}[r.Intn(5)]
		if p.SmallDomain && npts == 0 {
			npts = 2
		}
	}
	var order binary.AppendByteOrder = binary.LittleEndian
	b := []byte{1}
	if !p.SmallDomain && r.Intn(4) == 0 {
		order, b[0] = binary.BigEndian, 0
	}
	b = order.AppendUint32(b, kind+uint32(layout)*1000)
	if kind == 2 {
		b = order.AppendUint32(b, uint32(npts))
	}
	emptyPoint := kind == 1 && !p.SmallDomain && r.Intn(12) == 0 // POINT EMPTY: all coordinates NaN
	for i := 0; i < npts*dims; i++ {
		c := wkbCoord(r, p)
		if emptyPoint {
			c = math.NaN()
		}
		b = order.AppendUint64(b, math.Float64bits(c))
	}
	return b
}
