package gen

// Hand-written catalogue types covering shapes the generated ones do not: 16-byte values with
// dictionary encoding (be128 dictionary), uuid strings, several byte-array flavours side by side.

type H001 struct {
	ID   [16]byte `parquet:"id,uuid,dict"`
	Raw  [16]byte `parquet:"raw,dict"`
	Opt  [16]byte `parquet:"opt,optional,dict"`
	Name string   `parquet:"name,dict"`
}

type H002 struct {
	IDs  [][16]byte `parquet:"ids,dict"`
	Tags []string   `parquet:"tags,list"`
	Key  [5]byte    `parquet:"key,dict"`
	Blob []byte     `parquet:"blob,optional"`
}

type H003_Item struct {
	Sku [16]byte `parquet:"sku,uuid"`
	Qty *int64   `parquet:"qty"`
	Tag string   `parquet:"tag,optional,dict"`
}

type H003 struct {
	Items []H003_Item `parquet:"items,list"`
	Note  *string     `parquet:"note,zstd"`
	U     uint64      `parquet:"u,plain"`
	F     float64     `parquet:"f,optional"`
}

func init() {
	register(entryOf[H001]("H001"))
	register(entryOf[H002]("H002"))
	register(entryOf[H003]("H003"))
}

// embedded (anonymous) structs, two levels, the outer one not the first field: the typed write
// path computes field offsets through the embedding chain. Scalars only inside the embedding: a
// wrong offset then shows as a wrong value (an input to report) instead of a fatal fault of the
// harness process on a misread pointer.
type H004Inner struct {
	A int32   `parquet:"a"`
	B float64 `parquet:"b"`
	C int64   `parquet:"c,optional"`
}

type H004Mid struct {
	X int64 `parquet:"x"`
	H004Inner
	Y int32 `parquet:"y,optional"`
}

type H004 struct {
	ID int64 `parquet:"id"`
	H004Mid
	Z []int32 `parquet:"z"`
}

// Go maps (entry order is unspecified: these types are compared value-wise, not stream-wise)
type H005 struct {
	ID int64                       `parquet:"id"`
	M  map[string]int64            `parquet:"m"`
	MM map[string]map[string]int64 `parquet:"mm"`
	S  map[string]H004Inner        `parquet:"s"`
}

// MapCatalog holds the types with Go maps; they are kept out of Catalog because stream-level
// comparisons do not apply to them.
var MapCatalog []*Entry

func init() {
	register(entryOf[H004]("H004"))
	if e := entryOf[H005]("H005"); e != nil {
		e.HasMap = true
		MapCatalog = append(MapCatalog, e)
	}
}
