package gen

// Hand-written catalogue types covering shapes the generated ones do not: 16-byte values with
// dictionary encoding (be128 dictionary), uuid strings, several byte-array flavours side by side.

type H001 struct {
	ID   [16]byte `parquet:"id,uuid,dict"`
	Raw  [16]byte `parquet:"raw,dict"`
	Opt  [16]byte `parquet:"opt,optional,dict"`
	Name string   `parquet:"name,dict"`
}

type H002 struct {
	IDs  [][16]byte `parquet:"ids,dict"`
	Tags []string   `parquet:"tags,list"`
	Key  [5]byte    `parquet:"key,dict"`
	Blob []byte     `parquet:"blob,optional"`
}

type H003_Item struct {
	Sku [16]byte `parquet:"sku,uuid"`
	Qty *int64   `parquet:"qty"`
	Tag string   `parquet:"tag,optional,dict"`
}

type H003 struct {
	Items []H003_Item `parquet:"items,list"`
	Note  *string     `parquet:"note,zstd"`
	U     uint64      `parquet:"u,plain"`
	F     float64     `parquet:"f,optional"`
}

func init() {
	register(entryOf[H001]("H001"))
	register(entryOf[H002]("H002"))
	register(entryOf[H003]("H003"))
}
