// Package core holds what every property check shares: the run context, counters for the
// evidence file, failure records, and small formatting helpers.
package core

import (
	"crypto/sha256"
	"encoding/hex"
	"encoding/json"
	"fmt"
	"math/rand"
	"os"
	"sort"
	"strings"
	"sync"

	"verifharness/drv"
)

type Failure struct {
	Layer  string `json:"layer"` // L1: the property fails on the real code; L2: code and Lean mirror disagree
	Key    string `json:"key"`   // stable signature of what fails (used to match known findings)
	What   string `json:"what"`
	Detail any    `json:"detail,omitempty"`
}

type Result struct {
	Evaluations        int64                       `json:"evaluations"`
	DistinctNontrivial int64                       `json:"distinct_nontrivial"`
	Rule               string                      `json:"rule"`
	Samples            []any                       `json:"samples"`
	Histograms         map[string]map[string]int64 `json:"histograms"`
	Failures           []Failure                   `json:"failures"`
	Observations       []Failure                   `json:"observations"`
	DriverRequests     int64                       `json:"driver_requests"`
}

type Ctx struct {
	Prop, Tier, Variant string
	Seed                int64
	Widen               bool
	DriverPath          string
	CorpusDir           string
	Replay              string
	Only                string // run only this sub-check (debugging)

	mu       sync.Mutex
	res      Result
	seen     map[[16]byte]struct{}
	failKeys map[string]int
	drivers  []*drv.Driver
}

func NewCtx() *Ctx {
	return &Ctx{seen: map[[16]byte]struct{}{}, failKeys: map[string]int{},
		res: Result{Histograms: map[string]map[string]int64{}, Samples: []any{}, Failures: []Failure{}, Observations: []Failure{}}}
}

func (c *Ctx) Thorough() bool { return c.Tier == "thorough" }

// Scale returns q in the quick tier and t in the thorough tier.
func (c *Ctx) Scale(q, t int) int {
	if c.Thorough() {
		return t
	}
	return q
}

// Rand returns a PRNG derived from the run seed and a stream name, so that every random choice
// of a run replays from VERIF_SEED alone.
func (c *Ctx) Rand(stream string) *rand.Rand {
	h := sha256.Sum256([]byte(fmt.Sprintf("%d/%s/%s", c.Seed, c.Prop, stream)))
	var s int64
	for i := 0; i < 8; i++ {
		s = s<<8 | int64(h[i])
	}
	return rand.New(rand.NewSource(s))
}

// Case counts one evaluated case. canon is the canonical text of the input (distinctness is by
// its hash); nontrivial is the per-property rule of DESIGN.md section 4.
func (c *Ctx) Case(canon string, nontrivial bool) {
	h := sha256.Sum256([]byte(canon))
	var k [16]byte
	copy(k[:], h[:16])
	c.mu.Lock()
	c.res.Evaluations++
	if nontrivial {
		if _, ok := c.seen[k]; !ok {
			c.seen[k] = struct{}{}
			c.res.DistinctNontrivial++
		}
	}
	c.mu.Unlock()
}

// Sample keeps a few actual cases for the evidence file.
func (c *Ctx) Sample(v any) {
	c.mu.Lock()
	if len(c.res.Samples) < 8 {
		c.res.Samples = append(c.res.Samples, v)
	}
	c.mu.Unlock()
}

func (c *Ctx) Hist(name, key string) { c.HistN(name, key, 1) }

func (c *Ctx) HistN(name, key string, n int64) {
	c.mu.Lock()
	m := c.res.Histograms[name]
	if m == nil {
		m = map[string]int64{}
		c.res.Histograms[name] = m
	}
	m[key] += n
	c.mu.Unlock()
}

// Fail records a failure; at most 5 per key are kept.
func (c *Ctx) Fail(layer, key, what string, detail any) {
	c.mu.Lock()
	c.failKeys[layer+"/"+key]++
	if c.failKeys[layer+"/"+key] <= 3 {
		c.res.Failures = append(c.res.Failures, Failure{Layer: layer, Key: key, What: what, Detail: detail})
	}
	c.mu.Unlock()
}

// Observe records behaviour that is worth reporting but lies outside what the property states
// (e.g. a decoder panicking on a malformed stream when the property quantifies over encoder
// outputs only). Observations never influence the verdict.
func (c *Ctx) Observe(key, what string, detail any) {
	c.mu.Lock()
	c.failKeys["obs/"+key]++
	if c.failKeys["obs/"+key] <= 1 {
		c.res.Observations = append(c.res.Observations, Failure{Layer: "observation", Key: key, What: what, Detail: detail})
	}
	c.mu.Unlock()
}

func (c *Ctx) FailCount() int {
	c.mu.Lock()
	defer c.mu.Unlock()
	n := 0
	for k, v := range c.failKeys {
		if !strings.HasPrefix(k, "obs/") {
			n += v
		}
	}
	return n
}

func (c *Ctx) SetRule(r string) { c.mu.Lock(); c.res.Rule = r; c.mu.Unlock() }

// Driver starts one more model process.
func (c *Ctx) Driver() *drv.Driver {
	d, err := drv.Start(c.DriverPath)
	if err != nil {
		fmt.Fprintln(os.Stderr, "cannot start pqdriver:", err)
		c.Fail("L2", "driver-unavailable", "pqdriver cannot be started: "+err.Error(), nil)
		return nil
	}
	c.mu.Lock()
	c.drivers = append(c.drivers, d)
	c.mu.Unlock()
	return d
}

func (c *Ctx) Finish(outPath string) error {
	c.mu.Lock()
	defer c.mu.Unlock()
	for _, d := range c.drivers {
		c.res.DriverRequests += d.N
		d.Close()
	}
	sort.SliceStable(c.res.Failures, func(i, j int) bool { return c.res.Failures[i].Layer < c.res.Failures[j].Layer })
	b, err := json.MarshalIndent(&c.res, "", " ")
	if err != nil {
		return err
	}
	return os.WriteFile(outPath, b, 0o644)
}

// CorpusFiles lists the recorded cases of this property (replayed before generated ones).
func (c *Ctx) CorpusFiles() []string {
	ents, err := os.ReadDir(c.CorpusDir)
	if err != nil {
		return nil
	}
	var out []string
	for _, e := range ents {
		if strings.HasSuffix(e.Name(), ".case") {
			out = append(out, c.CorpusDir+"/"+e.Name())
		}
	}
	sort.Strings(out)
	return out
}

func Hex(b []byte) string {
	if len(b) == 0 {
		return "-"
	}
	return hex.EncodeToString(b)
}

func JoinInts[T ~int | ~int32 | ~int64 | ~uint32 | ~uint64 | ~uint8](xs []T) string {
	if len(xs) == 0 {
		return "-"
	}
	var sb strings.Builder
	for i, x := range xs {
		if i > 0 {
			sb.WriteByte(',')
		}
		fmt.Fprintf(&sb, "%d", x)
	}
	return sb.String()
}
